#!/bin/sh
# run every registered check (default tier quick) and summarise exit status / wall time
cd "$(dirname "$0")/.." || exit 2
TIER=${1:-quick}
for p in $(python3 -c "import json;print(' '.join(c['property_id'] for c in json.load(open('MANIFEST.json'))['checks']))"); do
  s=$(date +%s)
  ./check $p --tier $TIER > /tmp/runall.$p.log 2>&1; rc=$?
  e=$(date +%s)
  echo "$p exit=$rc wall=$((e-s))s $(grep -c '^KNOWN-FINDING' /tmp/runall.$p.log) known, $(grep -c '^VIOLATION' /tmp/runall.$p.log) violations, $(grep -c HARNESS-ERROR /tmp/runall.$p.log) harness-errors"
done
