#!/bin/sh
# adoptwave.sh <suffix> <Cnn> ... : adopt /tmp/wt/<Cnn><suffix>/_seed/{1,2} as <Cnn>-<suffix>1/2 (parallel per property)
suf=$1; shift
for c in "$@"; do
  ( for k in 1 2; do
      d=/tmp/wt/${c}${suf}/_seed/$k
      [ -f $d/patch.diff ] || continue
      python3 /verif/tools/seedrun.py adopt $d $c ${c}-${suf}$k 2>&1 | tail -2 | sed "s/^/[$c-$suf$k] /"
    done ) &
done
wait
