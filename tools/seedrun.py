#!/usr/bin/env python3
"""Confirm a seeded property-breaking change and run the checks against it.

usage:
  seedrun.py adopt <seed_dir> <PROP> <name>   confirm in a scratch worktree (suite unchanged, demo passes without /
                                              fails with the patch) and copy to /verif/seeded/<name>/
  seedrun.py detect <name> [PROP ...]         git apply the patch to /repo, run ./check <PROP> --tier quick --no-evidence
                                              (default: the property in meta.json), ALWAYS revert /repo, record the result
"""
import json, os, shutil, subprocess, sys, time

VERIF = os.path.dirname(os.path.dirname(os.path.abspath(__file__)))
SEEDED = os.path.join(VERIF, "seeded")
ENV = {k: v for k, v in os.environ.items() if k not in ("PYTHONPATH", "MYST_PARSER_VERIF")}


def sh(cmd, cwd=None, env=None, timeout=3600):
    r = subprocess.run(cmd, cwd=cwd, env=env or ENV, capture_output=True, text=True, timeout=timeout)
    return r.returncode, (r.stdout + r.stderr)


def adopt(seed_dir, prop, name):
    wt = f"/tmp/sv/{name}"
    os.makedirs("/tmp/sv", exist_ok=True)
    sh(["git", "-C", "/repo", "worktree", "remove", "--force", wt])
    rc, out = sh(["git", "-C", "/repo", "worktree", "add", "--detach", wt, "HEAD"])
    assert rc == 0, out
    meta = {"property": prop, "name": name, "base_commit": sh(["git", "-C", "/repo", "rev-parse", "HEAD"])[1].strip(), "ran": []}
    ok = True
    try:
        env = dict(ENV, PYTHONPATH=wt)
        demo = os.path.join(seed_dir, "demo.py")
        shutil.copy(demo, os.path.join(wt, "_seed_demo.py"))
        rc0, out0 = sh(["/venv/bin/python", "_seed_demo.py"], cwd=wt, env=env, timeout=900)
        meta["ran"].append({"cmd": "demo on unchanged tree", "exit": rc0, "tail": out0[-400:]})
        rc, out = sh(["git", "apply", os.path.join(seed_dir, "patch.diff")], cwd=wt)
        meta["ran"].append({"cmd": "git apply patch.diff", "exit": rc, "tail": out[-400:]})
        if rc != 0:
            print("PATCH DOES NOT APPLY to current HEAD:", out)
            ok = False
        else:
            rc1, out1 = sh(["/venv/bin/python", "_seed_demo.py"], cwd=wt, env=env, timeout=900)
            meta["ran"].append({"cmd": "demo with patch", "exit": rc1, "tail": out1[-1200:]})
            rcb, outb = sh(["python3", os.path.join(VERIF, "tools", "baseline.py"), wt], timeout=1800)
            meta["ran"].append({"cmd": "pinned suite with patch (tools/baseline.py)", "exit": rcb, "tail": outb[-400:]})
            print(f"demo unchanged: exit {rc0}; demo patched: exit {rc1}; suite with patch: exit {rcb} {outb.strip().splitlines()[-1] if outb.strip() else ''}")
            ok = rc0 == 0 and rc1 != 0 and rcb == 0
    finally:
        sh(["git", "-C", "/repo", "worktree", "remove", "--force", wt])
        shutil.rmtree(wt, ignore_errors=True)
    if not ok:
        print("NOT ADOPTED:", name)
        print(json.dumps(meta["ran"], indent=1)[-3000:])
        return 1
    dst = os.path.join(SEEDED, name)
    os.makedirs(dst, exist_ok=True)
    try:  # a re-adoption (rebased patch) keeps the detection history of the change
        meta["history"] = json.load(open(os.path.join(dst, "meta.json"))).get("history", [])
    except (OSError, ValueError):
        pass
    shutil.copy(os.path.join(seed_dir, "patch.diff"), os.path.join(dst, "patch.diff"))
    shutil.copy(os.path.join(seed_dir, "demo.py"), os.path.join(dst, "demo.py"))
    notes = os.path.join(seed_dir, "NOTES.md")
    if os.path.exists(notes):
        shutil.copy(notes, os.path.join(dst, "NOTES.md"))
        meta["needs_to_manifest"] = "see NOTES.md"
    meta["origin"] = "independent sub-agent given only the property record and a scratch worktree"
    json.dump(meta, open(os.path.join(dst, "meta.json"), "w"), indent=1)
    print("adopted", name)
    return 0


def detect(name, props):
    dst = os.path.join(SEEDED, name)
    meta = json.load(open(os.path.join(dst, "meta.json")))
    props = props or [meta["property"]]
    rc, out = sh(["git", "-C", "/repo", "status", "--porcelain", "--untracked-files=no"])
    assert out.strip() == "", "/repo has uncommitted changes: " + out
    rc, out = sh(["git", "-C", "/repo", "apply", os.path.join(dst, "patch.diff")])
    assert rc == 0, out
    results = meta.setdefault("detection", {})
    try:
        for prop in props:
            t0 = time.time()
            rc, out = sh([os.path.join(VERIF, "check"), prop, "--tier", os.environ.get("SEED_TIER", "quick"), "--no-evidence"], cwd=VERIF, timeout=7200)
            viol = [l for l in out.splitlines() if l.startswith("VIOLATION")]
            msgs = [l.strip()[:300] for l in out.splitlines() if l.startswith("  ") and "signature=" in l]
            results[prop] = {"exit": rc, "violations": len(viol), "first": msgs[:3], "wall_s": round(time.time() - t0, 1),
                             "detected": rc == 1 and bool(viol), "tier": os.environ.get("SEED_TIER", "quick"),
                             "verif_commit": sh(["git", "-C", VERIF, "rev-parse", "--short", "HEAD"])[1].strip()}
            meta.setdefault("history", []).append({"property": prop, "verif_commit": results[prop]["verif_commit"], "detected": results[prop]["detected"],
                                                   "exit": rc, "violations": len(viol)})
            print(f"{name} {prop}: exit {rc}, {len(viol)} VIOLATION lines, {results[prop]['wall_s']}s")
            for m in msgs[:3]:
                print("   ", m[:260])
            if rc not in (0, 1):
                print(out[-1500:])
    finally:
        sh(["git", "-C", "/repo", "checkout", "--", "."])
        rc, out = sh(["git", "-C", "/repo", "status", "--porcelain", "--untracked-files=no"])
        assert out.strip() == "", "revert failed: " + out
    json.dump(meta, open(os.path.join(dst, "meta.json"), "w"), indent=1)
    return 0


if __name__ == "__main__":
    if sys.argv[1] == "adopt":
        sys.exit(adopt(*sys.argv[2:5]))
    if sys.argv[1] == "detect":
        sys.exit(detect(sys.argv[2], sys.argv[3:]))
