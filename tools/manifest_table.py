CHECKS = {
 "C07": dict(
  category="model_checking",
  technique="bounded exhaustive enumeration of all strings over YAML alphabets + grammar derivations, executed on options_to_items, compared with PyYAML's event stream as reference model",
  text="Every string up to the length bound over seven YAML-significant alphabets and every derivation of an option-block grammar is executed on the real tokenizer; on the supported subset (decided by PyYAML's event stream) pairs must equal YAML's, elsewhere only TokenizeError with an in-text position may be raised. Exhaustive within the stated bounds, which is the right level for a pure string function whose defects live in short character interactions.",
  note="Trusted: PyYAML 6.0.3 as conforming loader; subset membership rules of DESIGN.md §5; strings beyond the length bound / outside the alphabets are not covered; termination = 60 s deadline per call.",
 ),
 "C16": dict(
  category="model_checking",
  technique="bounded exhaustive enumeration of all strings over markup alphabets and of all well-formed forests up to a node bound, executed on tokenize_html; generator's own tree and an independent pre-order filter as reference models",
  text="All strings up to length 5-6 (quick) / 6-8 (thorough) over four markup alphabets are parsed by the real HtmlToAst: no exception, each element walked once with the right parent, copies/strips isolated from the original. Every well-formed forest up to 3 (4) nodes must round-trip exactly and parse to the generator's tree; every find() query from a finite menu is compared with an independent filter. Exhaustive within bounds.",
  note="Trusted: the forest grammar as definition of well-formed HTML; attribute filters with empty value not queried; strings/trees beyond the bounds not covered.",
 ),
 "C19": dict(
  category="model_checking",
  technique="bounded exhaustive enumeration of (pattern, name) pairs, filter quadruples, cache visiting orders and inv: link documents, executed on the real matcher/filters/renderer against a reference wildcard matcher",
  text="Every pattern up to length 5 (6) against every name up to length 4 over {a,A,*,\\,.,+}, including revisits through the 256-entry regex cache, every filter quadruple of a 7x7x7x8 menu over generated inventories in native and Sphinx representation, and every inv: link spelling of a finite menu rendered through docutils, compared with a reference matcher written from the docstring and a list-comprehension filter.",
  note="Trusted: mcx/models/wildcard.py as the documented semantics; names with line breaks and empty path parts not generated; Sphinx intersphinx path of inv: links covered by the Sphinx system when present in evidence.",
 ),
 "C18": dict(
  category="model_checking",
  technique="bounded exhaustive enumeration of inventory files (entry sequences x versions x header variants) and of ALL read() chunking schedules up to a cut bound, executed on myst_parser.inventory.load; Sphinx's loader and the single-read result as reference models",
  text="Every inventory of <= 2 (3) lines from a 20-line v2 pool and a 9-line v1 pool (names with spaces, $ shorthand, priorities, duplicates, py:module duplicates, malformed lines), both versions, with/without final newline, is loaded by the real loader and compared entry-by-entry with Sphinx's own loader; every delivery of the bytes of 6 (8) files through read() with <= 2 (3) cut points and every uniform chunk size must give the single-read result; to_sphinx/from_sphinx round trip on every loaded inventory.",
  note="Trusted: Sphinx 8.2.3 InventoryFile.loads as reference; '' and '-' display names identified; exotic line separators not generated; read() never returns more than requested.",
 ),
 "C08": dict(
  category="model_checking",
  technique="bounded exhaustive enumeration of (directive class, first line, content, additional options) with every class of the docutils/Sphinx registries as program, executed on parse_directive_text against a reference splitter + PyYAML pairs + the class's own converters; metamorphic colon-vs-dash style comparison",
  text="Every registered directive class x 4 first lines x 3 additional-option settings x every content of <= 2 (3) lines over a 16-line vocabulary (all classes) and of 3 (4) lines for one representative per declaration signature is split by the real function and compared with a 40-line reference splitter: arguments/MarkupError, body, strict body_offset, converted options, exactly which options are dropped and named in warnings; every colon-style block is rewritten as a --- block and must give the same result with offset + 2.",
  note="Trusted: the reference splitter written from the module docstring; PyYAML for the pairs inside a block (C07 covers the tokenizer itself); body compared modulo trailing blank lines; '--- x' closers not in the vocabulary; validate_options=False (myst-nb) path not covered.",
 ),
 "C05": dict(
  category="model_checking",
  technique="bounded exhaustive enumeration of heading-level / nested-heading / include sequences executed on the real renderer, plus explicit-state BFS to a fixpoint over the renderer's open-level set, against a stack-machine reference model",
  text="Every sequence of <= 6 (7) heading levels, every sequence of <= 3 (4) symbols over a 16-symbol alphabet (headings, paragraphs, headings inside quote/list/note/nested directives, includes with heading-offset), and every include offset after every short prefix is rendered by the real DocutilsRenderer; section parents, paragraph placement, skip warnings (count and line), rubric levels and the renderer's own _level_to_section key set must equal a 15-line stack machine. A BFS over the 64 canonical open-level sets x 6 levels runs to a fixpoint, covering unbounded sequences under the stated abstraction.",
  note="Trusted: the stack-machine model; pre-transform doctree; Sphinx `only` not generated; lines of warnings raised inside included files are counted, not compared (C04 owns lines).",
 ),
 "C10": dict(
  category="model_checking",
  technique="bounded exhaustive enumeration of heading-title sequences x levels x anchor depths x slug functions, executed through the docutils pipeline; GitHub-rule slug model and the myst-anchors CLI as two independent references; every slug re-resolved through a '#slug' link",
  text="Every sequence of <= 3 (4) titles from an 18-title pool built to collide (equal base slugs, titles equal to suffixed forms, skipped inline tokens), also nested in quotes/list items, every level assignment for short sequences x heading_anchors 0..3, the H1..H6 document x heading_anchors 0..7 and five custom slug functions are rendered; slugs must equal the documented rule with first-free suffixing, equal the ids printed by myst_parser.cli.print_anchors, be pairwise distinct, and each [](#slug) must resolve to the heading carrying it; a raising slug function yields one warning per heading.",
  note="Trusted: the 3-line slug model; myst-anchors CLI = print_anchors in-process; titles with leading/trailing blanks are only compared with the CLI (known finding: '-a' vs 'a'); docutils front end.",
 ),
 "C11": dict(
  category="model_checking",
  technique="bounded exhaustive enumeration of arrangements of footnote references/definitions x sort x transition settings, executed through the full docutils transform pipeline against a numbering/linking/collection reference model",
  text="Every sequence of <= 3 (4) blocks over 13 (16) footnote symbols and of <= 4 (6) over a 9-symbol sub-alphabet (named/numeric/duplicate/undefined/unreferenced labels, definitions inside quotes and list items, multiple and repeated references) under the four footnote_sort x footnote_transition settings is run through publish_doctree; label numbers, reference numbers and refids, back-reference lists in source order, distinct labels, kept body texts, warning counts ([ref.footnote] per duplicate and per unreferenced definition) and the top-level collection order / transition must equal a 40-line model.",
  note="Trusted: the model (numbering by first reference asserted only with footnote_sort=True; footnotes-only documents unspecified for the transition); docutils front end only.",
 ),
 "C09": dict(
  category="model_checking",
  technique="bounded exhaustive enumeration of documents built from target placements x link placements, executed through the docutils pipeline against an explicit-then-slug lookup model on the names the generator wrote",
  text="Every document with 1-2 targets of 8 kinds ((name)= and {#name} on paragraph/heading, directive :name:, heading slug, duplicate titles, mixed-case declaration, explicit name shadowing a slug) in 4 nesting contexts and one link (4 forms x existing/missing/suffixed/case-variant names, 4 contexts, before/after) or two links is rendered; each link must yield exactly one reference whose refid belongs to the node the generator attached that name to, keep explicit (nested) text, be filled with the target's title or '#name', and a missing target must give exactly one [myst.xref_missing] warning per link at the link's line.",
  note="Trusted: the lookup model; case-variant spellings are unspecified (either resolution or one warning); duplicate explicit names not generated; docutils front end (Sphinx cross-document resolution is C12).",
 ),
 "C13": dict(
  category="model_checking",
  technique="exhaustive enumeration of the full product field x value pool x entry point (constructor, copy, front matter, docutils option strings) and of field pairs, executed on the real validators/merge code against a table of documented types and canonical forms; differential doctree comparison global vs front-matter setting",
  text="All 30 fields x 43 values of every JSON/YAML shape are pushed through MdParserConfig(...), copy() and merge_file_level (under myst: and, for html_meta/substitutions, at top level) over a non-default global: accepted iff the documented type admits the value, stored in canonical form at every entry point, exactly one topmatter warning and no change for an invalid value, other fields and the global object untouched; all ordered field pairs with valid/invalid values; 43 docutils option spellings through OptionParser+create_myst_config; 26 effect documents rendered under the global and under the front-matter setting must give identical doctrees and warnings.",
  note="Trusted: SPEC table of documented types (unspecified: bool-for-int, None for heading_anchors, non-list iterables for name lists, linkify/gfm); global_only fields, commonmark_only, sub_delimiters, ref_domains excluded from the effect clause; Sphinx conf values are covered only through the shared MdParserConfig constructor.",
 ),
 "C14": dict(
  category="model_checking",
  technique="exhaustive enumeration of warning call sites (AST) and of trigger sets x suppress lists, executed through the docutils pipeline (pre- and post-transform) and through in-process Sphinx builds; relational oracle run(S) = run(no suppression) minus exactly the tagged lines and system_message nodes",
  text="All warning-emitting call sites of the package are enumerated statically and must name a catalogue member. Every set of <= 2 (3) of 16 document-reachable triggers (plus front-matter and slug-function triggers), plain and nested in a quote and a directive, is rendered with no suppression and under every emitted tag, the bare type, type.*, foreign tags and pairs: each trigger must emit its [type.subtype] tag, no myst tag outside the catalogue may appear, and the log and the doctree (pre- and post-transform) under suppression must equal the unsuppressed ones with exactly the tagged items deleted. 13 Sphinx-reachable triggers are built in-process under 4 suppress lists each with the same relation on log and stored doctree.",
  note="Trusted: the catalogue = MystWarnings + ref.footnote; framed documents; DIRECTIVE_BODY/RENDER_METHOD/HTML_PARSE static only; allow-listed untagged docutils-policy messages; xref_ambiguous / domains (need a multi-document project / legacy domain) are exercised only statically.",
 ),
 "C20": dict(
  category="exploration",
  technique="bounded exhaustive enumeration of raw- and file-carrying constructs x nesting contexts x runs of adjacent constructs x the 2x2 security settings, executed through publish_doctree and the html5 writer with sentinel payloads and an open() audit hook; invariant oracle on every execution",
  text="Each of 17 raw-carrying and 13 file-carrying constructs is placed at top level, in a quote, list item, note, colon directive, included file and substitution value (thorough: every pair of contexts) and in runs of 2-4 adjacent raw siblings, and rendered under raw_enabled x file_insertion_enabled: with raw disabled no raw node and no unescaped sentinel element may reach doctree or HTML; with file insertion disabled no sentinel file content may appear and the audit hook must see no open() of a sentinel file; every refusal is reported and the surrounding paragraphs survive; with both settings on the payload must appear (vacuity guard).",
  note="Pure invariant (no reference model), hence 'exploration'. Trusted: sentinel detection; audit hook sees every open(); docutils front end; writer-side file reads out of scope.",
 ),
 "C17": dict(
  category="model_checking",
  technique="bounded exhaustive enumeration of HTML fragments x extension combinations x contexts, of <img>/<div.admonition> attribute x value products and of GFM tag spellings, executed on the real renderer; markdown-it token content, the harness-written directive spelling and the stdlib html.parser as reference models",
  text="(1) 20 fragments alone and in ordered pairs, in 3 contexts, under the 4 html_image/html_admonition combinations: every html token that a stdlib-parser model classifies as non-convertible must appear as one raw html node with exactly the token content. (2) <img> with each of 9 attributes x 36 values full of option-syntax characters (+ value-less attributes; thorough: attribute pairs), as block, inline and quoted HTML, must give the same image node as the {image} directive written from the same dictionary; 360 div.admonition forms (titles, bodies with inner Markdown, attributes, contexts) must equal the {admonition} directive. (3) 9 GFM-disallowed names x open/close x 3 cases x 12 followers x 8 positions: html.parser finds no disallowed tag in the raw output, and non-tags are unchanged.",
  note="Trusted: stdlib html.parser as tag scanner and top-level model; harness-written directive spelling; fragments with a never-closed tag are unspecified; gfm via create_md_parser with the linkify rule disabled.",
 ),
 "C06": dict(
  category="model_checking",
  technique="bounded exhaustive enumeration of body block sequences x wrapper shapes, executed on the real parser; metamorphic reference: the same Markdown rendered at top level / written in place",
  text="Every sequence of <= 2 (3) blocks over 23 non-heading block symbols is rendered at top level and inside 15 wrappers (backtick and colon fences of two lengths, option blocks of both styles, nesting 2/3/4 deep with alternating fence kinds, include with and without front matter and inside a note, block substitution): the wrapper node's children must be node-for-node identical (line/source masked; system messages as a multiset) to the top-level rendering. 256 documents put a footnote, link-reference, (target)= or {#id} definition inside an include or substitution and use it before/after, at top level, in a quote, list item or another directive: the use must resolve exactly as with the definition written in place.",
  note="Trusted: the metamorphic relation; option-looking first lines and Jinja text excluded by grammar; headings excluded (C05). Known finding: link reference definitions inside include/substitution are invisible to outer text tokenised earlier.",
 ),
 "C04": dict(
  category="model_checking",
  technique="bounded exhaustive enumeration of nesting shapes (leaf kinds x wrapper chains x directive layouts) with a unique marker per construct, executed through the docutils pipeline; the generator's own line bookkeeping is the reference model",
  text="13 leaf kinds (paragraphs, heading, code, target, lists, quote, unknown directive / role / option warnings, body on the argument line) are wrapped in every chain of <= 2 (3) wrappers out of block quote, bullet/ordered item, ::: div, include (with and without :start-line:) and 80 directive layouts (backtick/colon x no/one/two/--- option blocks, blank line after the options and before the closing fence, argument or not); every leaf node, every enclosing list/item/quote/directive node and every warning must carry the 1-based line the generator wrote it on, and the path of the file it came from.",
  note="Trusted: the generator's bookkeeping and its grammar constraints (no option-looking first body line unless intended). Two suite-pinned deviations are known findings (included files +1; body on the argument line +1), matched only when the delta is exactly explained by them.",
 ),
 "C02": dict(
  category="model_checking",
  technique="bounded exhaustive enumeration of inline sequences, block sequences and container nestings under 4 parser modes, executed on the real DocutilsRenderer and the in-process Sphinx front end; markdown-it-py's own token tree (RendererHTML parser) as reference model, compared as structural skeletons",
  text="Every sequence of <= 2 (3) of 23 inline constructs in 6 contexts, every ordered pair (thorough: also triples) of 60+ block constructs plain and inside quote / list items, and every container chain of depth <= 2 (3) around every block are parsed twice: into markdown-it's token tree and into a doctree. Both are reduced to a skeleton (paragraph, list+style+start, item, quote, em, strong, link+destination+title, table rows/cells+alignment, heading, dl, field list; text, inline code, code block+language, raw HTML, math, image+uri+alt+title, thematic break, hard break) and must be equal in strict CommonMark, MyST, MyST+all static extensions and gfm mode; the Sphinx doctree of the same documents must reduce to the docutils skeleton.",
  note="Trusted: markdown-it-py 3.0.0 token tree (and its renderInlineAsText for image alt); skeleton masks stated in ASSUMPTIONS; directives/roles/front matter are outside the compared leaves; linkify unavailable.",
 ),
}
NOT_APPLICABLE = {}
