CHECKS = {
 "C07": dict(
  category="model_checking",
  technique="bounded exhaustive enumeration of all strings over YAML alphabets + grammar derivations, executed on options_to_items, compared with PyYAML's event stream as reference model",
  text="Every string up to the length bound over seven YAML-significant alphabets and every derivation of an option-block grammar is executed on the real tokenizer; on the supported subset (decided by PyYAML's event stream) pairs must equal YAML's, elsewhere only TokenizeError with an in-text position may be raised. Exhaustive within the stated bounds, which is the right level for a pure string function whose defects live in short character interactions.",
  note="Trusted: PyYAML 6.0.3 as conforming loader; subset membership rules of DESIGN.md §5; strings beyond the length bound / outside the alphabets are not covered; termination = 60 s deadline per call.",
 ),
 "C16": dict(
  category="model_checking",
  technique="bounded exhaustive enumeration of all strings over markup alphabets and of all well-formed forests up to a node bound, executed on tokenize_html; generator's own tree and an independent pre-order filter as reference models",
  text="All strings up to length 5-6 (quick) / 6-8 (thorough) over four markup alphabets are parsed by the real HtmlToAst: no exception, each element walked once with the right parent, copies/strips isolated from the original. Every well-formed forest up to 3 (4) nodes must round-trip exactly and parse to the generator's tree; every find() query from a finite menu is compared with an independent filter. Exhaustive within bounds.",
  note="Trusted: the forest grammar as definition of well-formed HTML; attribute filters with empty value not queried; strings/trees beyond the bounds not covered.",
 ),
 "C19": dict(
  category="model_checking",
  technique="bounded exhaustive enumeration of (pattern, name) pairs, filter quadruples, cache visiting orders and inv: link documents, executed on the real matcher/filters/renderer against a reference wildcard matcher",
  text="Every pattern up to length 5 (6) against every name up to length 4 over {a,A,*,\\,.,+}, including revisits through the 256-entry regex cache, every filter quadruple of a 7x7x7x8 menu over generated inventories in native and Sphinx representation, and every inv: link spelling of a finite menu rendered through docutils, compared with a reference matcher written from the docstring and a list-comprehension filter.",
  note="Trusted: mcx/models/wildcard.py as the documented semantics; names with line breaks and empty path parts not generated; Sphinx intersphinx path of inv: links covered by the Sphinx system when present in evidence.",
 ),
}
NOT_APPLICABLE = {}
