CHECKS = {
 "C07": dict(
  category="model_checking",
  technique="bounded exhaustive enumeration of all strings over YAML alphabets + grammar derivations, executed on options_to_items, compared with PyYAML's event stream as reference model",
  text="Every string up to the length bound over seven YAML-significant alphabets and every derivation of an option-block grammar is executed on the real tokenizer; on the supported subset (decided by PyYAML's event stream) pairs must equal YAML's, elsewhere only TokenizeError with an in-text position may be raised. Exhaustive within the stated bounds, which is the right level for a pure string function whose defects live in short character interactions.",
  note="Trusted: PyYAML 6.0.3 as conforming loader; subset membership rules of DESIGN.md §5; strings beyond the length bound / outside the alphabets are not covered; termination = 60 s deadline per call.",
 ),
}
NOT_APPLICABLE = {}
