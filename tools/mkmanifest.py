#!/usr/bin/env python3
"""Regenerate MANIFEST.json from the table below (one entry per claimed property)."""
import json, os, sys
HERE = os.path.dirname(os.path.dirname(os.path.abspath(__file__)))
sys.path.insert(0, os.path.join(HERE, "tools"))
from manifest_table import CHECKS, NOT_APPLICABLE  # noqa

props = [json.loads(l)["id"] for l in open(os.path.join(HERE, "properties.jsonl"))]
checks = []
for pid in props:
    if pid not in CHECKS:
        continue
    c = CHECKS[pid]
    checks.append({
        "property_id": pid,
        "quick_cmd": f"./check {pid} --tier quick",
        "thorough_cmd": f"./check {pid} --tier thorough",
        "evidence_file": f"evidence/{pid}.json",
        "replay_cmd_template": f"./check {pid} --replay {{path}}",
        "engine": "mcx",
        "level_claimed": {"category": c["category"], "text": c["text"], "design_ref": f"DESIGN.md §4 {pid}"},
        "level_note": c["note"],
        "technique": c["technique"],
    })
na = [{"property_id": p, "reason": NOT_APPLICABLE.get(p, "check not built yet in this round; will be claimed once its explorer exists (DESIGN.md §4)")}
      for p in props if p not in CHECKS]
man = {
    "version": 1,
    "setup_cmd": "./check --selfcheck",
    "hooks": {
        "guard": "MYST_PARSER_VERIF",
        "enable": "no source hooks are needed: the checks import /repo's working tree (editable install) and observe through public functions, object introspection and harness-side seams",
        "baseline_off_cmd": "cd /repo && /venv/bin/python -m pytest -ra -q -p no:cacheprovider --timeout=900 --continue-on-collection-errors",
        "source_commits": [],
        "add_only": True,
    },
    "engines": [{
        "name": "mcx",
        "path": "mcx/",
        "serves_properties": [c["property_id"] for c in checks],
        "kind_free_text": "hand-written stateless explicit-state / bounded-exhaustive explorer that executes the real MyST-Parser code on every enumerated history (forked worker pool, canonical-state dedup + fixpoint mode, reference-model oracles)",
    }],
    "checks": checks,
    "notes": "All checks are exhaustive enumerations within the bounds echoed in each evidence file; nothing is sampled. known_findings.json lists genuine defects that are recorded rather than repaired; 'fixed' entries suppress nothing.",
    "not_applicable": na,
}
json.dump(man, open(os.path.join(HERE, "MANIFEST.json"), "w"), indent=1)
print("MANIFEST.json:", len(checks), "checks,", len(na), "not claimed")
