#!/usr/bin/env python3
"""Print the prompt given to an independent sub-agent that seeds a property-breaking change.
usage: seed_prompt.py C05 /tmp/wt/C05a   (the agent sees the property record only, nothing from /verif)"""
import json, sys
pid, wt = sys.argv[1], sys.argv[2]
excl = sys.argv[3] if len(sys.argv) > 3 else ""
rec = [json.loads(l) for l in open("/verif/properties.jsonl") if json.loads(l)["id"] == pid][0]
rec = {k: rec[k] for k in ("id", "title", "statement", "quantifier", "why_tests_cant", "anchors")}
print(f"""You are helping to evaluate a verification harness for the open-source project executablebooks/MyST-Parser (Python; MyST Markdown -> docutils/Sphinx doctrees). Your job: craft up to TWO independent, realistic source changes ("seeded defects") that each BREAK the semantic property below, while the project still imports and its existing test suite still passes exactly as before. You do NOT have and must not look for any verification harness; work only from the property text and the source code.

## Your sandbox
- Your private git worktree of the repository is `{wt}` (already created). Work ONLY inside it. Never read or write `/repo` or `/verif` (not even to look), and never commit anywhere.
- Interpreter: `/venv/bin/python` (3.12; docutils 0.21.2, Sphinx 8.2.3, markdown-it-py 3.0.0, PyYAML are installed; `linkify-it-py` is NOT). No network.
- `myst_parser` is editable-installed from another location, so ALWAYS run python with cwd = `{wt}` and `PYTHONPATH={wt}`, and confirm once with `cd {wt} && PYTHONPATH={wt} /venv/bin/python -c "import myst_parser; print(myst_parser.__file__)"` that the worktree copy is imported.
- NEVER use `git stash` (the stash is shared between all worktrees of this repository and other people work in sibling worktrees): to set a change aside use `git diff > file`, `git checkout -- .`, `git apply file`. Before you finish, check that your patch.diff contains only your own hunks.
- Test suite: `cd {wt} && PYTHONPATH={wt} /venv/bin/python -m pytest -q -p no:cacheprovider --timeout=900 --continue-on-collection-errors -x -q 2>&1 | tail -15` (about 15-40 s; drop `-x` to see all). On the UNCHANGED tree exactly 1076 tests pass and 8 always fail (they need linkify-it-py / an old fixture: the `linkify`, `gfm` and one `math` fixture cases). With your change the set of passing and failing tests must be IDENTICAL to the unchanged tree — run the whole suite without `-x` before and after and compare the summary lists.

## The property to break
```json
{json.dumps(rec, indent=1, ensure_ascii=False)}
```

## What makes a good seeded change
- Small (1-15 lines), plausible as an honest mistake or an "optimisation"/"refactor" a contributor could make in the anchored code: shared mutable state hoisted or not reset, an offset/cursor advanced at the wrong moment, a cache keyed too coarsely, a boundary comparison off by one, a branch that handles the common case but loses a rare one, two sites that each look fine alone but disagree.
- It must need something SPECIFIC to manifest: a particular multi-step sequence or history, an unusual-but-legal input shape, a particular nesting/composition of two or three constructs, a fault at a particular point, a particular chunking/order. NOT something any ordinary document would expose at once, and not something the existing tests catch.
- It must genuinely violate the property as stated (not merely change unspecified behaviour), with the project still importable and the full existing test suite unchanged.
- The two changes should touch different mechanisms (different functions), so they are independent. If you can only find one good one, deliver one.

{("- Other contributors have ALREADY proposed changes in these places; choose DIFFERENT mechanisms (other functions, other state): " + excl) if excl else ""}

## Deliverables (write them under `{wt}/_seed/1/` and `{wt}/_seed/2/`)
For each change:
1. `patch.diff` — `git diff` of the source change only (paths relative to the repo root, appliable with `git apply`). Do not include the `_seed` directory or any test edits.
2. `demo.py` — a small self-contained program, run as `cd <checkout> && PYTHONPATH=<checkout> /venv/bin/python _seed_demo.py`-style (i.e. it must import `myst_parser` from the current working directory / PYTHONPATH and not hard-code `{wt}`), that exits 0 and prints PASS on the unchanged tree and exits 1 and prints FAIL (with the observed vs expected values) when the patch is applied. It should demonstrate the violation of the PROPERTY (state in a comment which sentence of the statement is violated).
3. `NOTES.md` — 5-15 lines: what was changed and why it looks innocent, which clause of the property it breaks, exactly what is needed for it to manifest (the trigger), and the commands you ran with their results (suite before/after, demo before/after).
When done, leave the worktree with the source restored to the unchanged state (`git -C {wt} checkout -- .` ; the `_seed` directory is untracked and stays). Your final message should just list the files written and a 2-line summary per change.
""")
