#!/usr/bin/env python3
"""Run the repository's pinned suite (BASELINE.json) in a given tree and compare with stable_pass.

usage: baseline.py [repo_dir]   (default /repo) ; exit 0 iff every stable_pass test passed.
"""
import json, subprocess, sys, tempfile, os, xml.etree.ElementTree as ET

repo = sys.argv[1] if len(sys.argv) > 1 else "/repo"
base = json.load(open("/root/.vp/BASELINE.json"))
want = set(base["stable_pass"])
with tempfile.TemporaryDirectory() as td:
    junit = os.path.join(td, "j.xml")
    env = dict(os.environ)
    env.pop("MYST_PARSER_VERIF", None)
    env["PYTHONPATH"] = repo
    cmd = ["/venv/bin/python", "-m", "pytest", "-q", "-p", "no:cacheprovider", "--timeout=900",
           "--continue-on-collection-errors", "-x" if "-x" in sys.argv else "-ra", f"--junitxml={junit}",
           "-n", os.environ.get("BASELINE_JOBS", "0")]
    r = subprocess.run(cmd, cwd=repo, env=env, capture_output=True, text=True)
    passed = set()
    for tc in ET.parse(junit).getroot().iter("testcase"):
        if not any(ch.tag in ("failure", "error", "skipped") for ch in tc):
            passed.add(f"{tc.get('classname')}::{tc.get('name')}")
missing = sorted(want - passed)
print(f"baseline: {len(want & passed)}/{len(want)} stable tests pass in {repo}")
for m in missing[:30]:
    print("  NOT PASSING:", m)
sys.exit(1 if missing else 0)
