import sys
exec(open("p11.py").read().split("bad=0;c=0;t=time.time()")[0])
def structure(doc):
    """list of top-level child kinds, with footnote labels"""
    out=[]
    for c in doc.children:
        if isinstance(c,nodes.footnote): out.append(("fn", c[0].astext(), c["names"][0] if c["names"] else None))
        elif isinstance(c,nodes.transition): out.append(("tr","footnotes" in c["classes"]))
        elif isinstance(c,nodes.system_message): continue
        else: out.append((c.tagname,))
    return out
def model_structure(seq, sort, trans, num, defs):
    kept={i for _,i in defs}
    if not sort:
        out=[]
        for i,s in enumerate(seq):
            if s[0]=="ref": out.append(("paragraph",))
            elif s[2]=="q": out.append(("block_quote",))
            elif s[2]=="l": out.append(("bullet_list",))
            elif i in kept: out.append(("fn", num[s[1]], s[1]))
        return out
    out=[]
    for i,s in enumerate(seq):
        if s[0]=="ref": out.append(("paragraph",))
        elif s[2]=="q": out.append(("block_quote",))
        elif s[2]=="l": out.append(("bullet_list",))
    fns=sorted([("fn",num[l],l) for l,_ in defs], key=lambda x:int(x[1]))
    if fns and trans and out: out.append(("tr",True))
    return out+fns
bad=0;c=0
N=int(sys.argv[1])
for n in range(1,N+1):
    for seq in itertools.product(SYM, repeat=n):
        tx=text_of(seq)
        for sort in (True,False):
          for trans in (True,False):
            d,w=run(tx, myst_footnote_sort=sort, myst_footnote_transition=trans, doctitle_xform=False); c+=1
            mnum,mdup,munref,defs=model(seq,sort)
            ms=model_structure(seq,sort,trans,mnum,defs); os_=structure(d)
            # backrefs / refids
            ok=True
            ids={f["names"][0]:f["ids"][0] for f in d.findall(nodes.footnote) if f["names"]}
            brefs=collections.defaultdict(list)
            for r in d.findall(nodes.footnote_reference):
                lab=r.rawsource[2:-1] if r.rawsource else None
            if ms!=os_:
                bad+=1
                if bad<8: print(sort,trans,repr(tx),"\n  M",ms,"\n  O",os_)
print(c,bad)
