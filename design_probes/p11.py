import io, itertools, time, re, collections, sys
from docutils import nodes
from docutils.core import publish_doctree
from myst_parser.parsers.docutils_ import Parser
def run(text, **ov):
    ws = io.StringIO()
    d = publish_doctree(text, parser=Parser(), settings_overrides={"warning_stream": ws, "report_level":2, "halt_level":5, **ov})
    return d, ws.getvalue()
# symbols: ("ref",[labels]) or ("def",label,ctx)
SYM = [("ref",["a"]),("ref",["b"]),("ref",["1"]),("ref",["2"]),("ref",["a","a"]),("ref",["zz"]),
       ("def","a",""),("def","b",""),("def","1",""),("def","2",""),("def","a","q"),("def","b","l"),("def","u","")]
def text_of(seq):
    out=[]
    for i,s in enumerate(seq):
        if s[0]=="ref": out.append(f"P{i} "+" ".join(f"[^{l}]" for l in s[1]))
        else:
            body=f"[^{s[1]}]: D{i}{s[1]}"
            if s[2]=="q": body="> "+body
            if s[2]=="l": body="- "+body
            out.append(body)
    return "\n\n".join(out)+"\n"
def model(seq, sort):
    defs=[]  # kept defs in source order: (label, idx)
    seen=set(); dups=0
    for i,s in enumerate(seq):
        if s[0]=="def":
            if s[1] in seen: dups+=1
            else: seen.add(s[1]); defs.append((s[1],i))
    refs=[]  # (label, para idx, k)
    for i,s in enumerate(seq):
        if s[0]=="ref":
            for l in s[1]: refs.append((l,i))
    manual={l for l,_ in defs if l.isdigit()}
    autos=[l for l,_ in defs if not l.isdigit()]
    if sort:
        order=[]
        for l,_ in refs:
            if (not l.isdigit()) and l not in order: order.append(l)
        autos.sort(key=lambda l: order.index(l) if l in order else 999)
    num={l:l for l in manual}; n=1
    for l in autos:
        while str(n) in manual: n+=1   # NB docutils checks nameids: names 'a','b' etc never digits
        num[l]=str(n); n+=1
    referenced={l for l,_ in refs}
    unref=sum(1 for l,_ in defs if l not in referenced)
    return num, dups, unref, defs
def observe(doc,w):
    num={}; 
    for f in doc.findall(nodes.footnote):
        if f["names"]: num[f["names"][0]]=f[0].astext()
    refnums=[(r.astext(), r.get("refid")) for r in doc.findall(nodes.footnote_reference)]
    return num, w.count("Duplicate footnote definition"), w.count("is not referenced")
bad=0;c=0;t=time.time()
N=int(sys.argv[1])
for n in range(1,N+1):
    for seq in itertools.product(SYM, repeat=n):
        tx=text_of(seq)
        for sort in (True,False):
            d,w=run(tx, myst_footnote_sort=sort); c+=1
            mnum,mdup,munref,defs=model(seq,sort)
            onum,odup,ounref=observe(d,w)
            if (mnum!=onum) or mdup!=odup or munref!=ounref:
                bad+=1
                if bad<8: print(sort, repr(tx), "\n  M",mnum,mdup,munref,"\n  O",onum,odup,ounref)
print(c,bad,time.time()-t)
