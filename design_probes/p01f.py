import io, itertools, time, sys, collections, traceback, os
from docutils.core import publish_doctree
from myst_parser.parsers.docutils_ import Parser
def sig(e):
    tb=traceback.extract_tb(e.__traceback__)
    inner=[f for f in tb if "myst_parser" in f.filename]
    last=tb[-1]
    return (type(e).__name__, (inner[-1].name if inner else "?"), last.filename.split("site-packages/")[-1].split("/repo/")[-1]+":"+last.name)
EXT=["amsmath","attrs_inline","attrs_block","colon_fence","deflist","dollarmath","fieldlist","html_admonition","html_image","replacements","smartquotes","strikethrough","substitution","tasklist"]
os.makedirs("/tmp/scratch/w1/adir",exist_ok=True)
open("/tmp/scratch/w1/ok.md","w").write("# Inc\n\npara\n"); open("/tmp/scratch/w1/bin.md","wb").write(b"\xff\xfe\x00")
open("/tmp/scratch/w1/bad.inv","w").write("junk")
def run(text, **ov):
    ws = io.StringIO()
    return publish_doctree(text, source_path="/tmp/scratch/w1/x.md", parser=Parser(), settings_overrides={"warning_stream": ws, "report_level":2, "halt_level":5, "myst_enable_extensions":EXT, "myst_heading_anchors":2, "myst_title_to_header":True, "myst_inventories":{"k":["http://x","/tmp/scratch/w1/bad.inv"]}, "myst_substitutions":{"a":"{{b}}","b":"{{a}}","c":"{{ 1/0 }}","d":"{% if %}","e":"# H\n\n```{note}\nx\n```"}, "myst_fence_as_directive":["mermaid","note"], "myst_number_code_blocks":["py"], **ov})
F=["---\na: 1\n---\n","---\na: *x\n---\n","---\n- l\n---\n","---\nmyst: 1\n---\n","---\nmyst:\n  nofield: 1\n  enable_extensions: 3\n  url_schemes: [http]\n  heading_anchors: x\n---\n","---\ntitle: T *e*\nauthor: A\ndate: 2020-01-01\nnested: {a: [1]}\nhtml_meta: {k: v, 'bad key=': '', 'p=q r': x}\nsubstitutions: {z: 1}\n---\n",
"```{note}\n:class: x\n:bogus: y\n\nbody\n```\n","```{note}\n---\nclass: [\n---\nbody\n```\n","```{note}\n:class: \"\\UFFFFFFFF\"\n```\n","```{image}\n```\n","```{image} a b c\n```\n","```{nodir} arg\n```\n","```{figure} a.png\n:width: 999zz\n\ncap\n```\n","```{code-block} py\n:emphasize-lines: 99\n:lineno-start: x\n\ncode\n```\n","```{table} T\n\n|a|\n|-|\n|b|\n```\n","```{list-table}\n\n- x\n```\n","```{csv-table}\n:file: nope.csv\n```\n","```{contents}\n```\n","```{role} r(emphasis)\n```\n","```{eval-rst}\n.. note::\n\n   `x`_ |s| [#]_\n\n.. include:: nope.rst\n```\n","```{include} nope.md\n```\n","```{include} adir\n```\n","```{include} bin.md\n```\n","```{include} ok.md\n:start-after: NOPE\n```\n","```{include} ok.md\n:literal:\n:number-lines: x\n```\n","```{include} ok.md\n:code: py\n:heading-offset: 2\n```\n","```{include}\n```\n",
"{norole}`x`\n","{raw}`x` {math}`x^2` {abbr}`a (b` {sub-ref}`q` {ref}`x` {doc}`y`\n","<img src>\n","<img src=\"a\" alt>\n","<img alt=\"x\">\n","<div class>\n","<div class=\"admonition\">\n<p class=\"title\">T\n","a <b x=\"1> c\n","<![foo x]>\n\n<div>\n<![foo x]>\n</div>\n",
"{{a}} {{c}} {{d}} {{nope}} {{ e }}\n","{{e}}\n","---\n","> ---\n","- ---\n","***\n\n***\n","Term\n: d\n\n: d2\n",": x\n",":f: v\n:g:\n","[^a]: x\n\n[^a]: y\n\n[^a] [^b]\n","[r]: u\n\n[r]: v\n\n[x][r] [y][nope]\n","|a|b|\n|-|\n|1|2|3|\n","|a|\n|:-:|\n","$$x$$ (l)\n\n$$y$$ (l)\n\n$a$ \\begin{equation}a\\end{equation}\n","\\begin{align}a\\end{align}\n","[](inv:#x) <inv:k:*:*#y*> [t](inv:)\n","[a](x.md) <project:y.md#z> <path:q.txt> [](#nope) [b](#) [c]()\n","["+"a"*10+"]("+"p"*300+".md) [n](a%00b)\n","![a](b){w=1x h=2 .c #i} `c`{.d l=py} [s]{.x}\n","{#i .c k=v}\n# H\n\n{#i}\n# H\n","# H\n#### H4\n## H2\n","(t)=\n\n(t)=\n# H\n","- [ ] t\n- [x] u\n","+++ meta\n\n% c\n","~~s~~ \"q\" -- (c)\n","```mermaid\ng\n```\n\n```note\nn\n```\n\n```py\nc\n```\n","\\\n","a\\\nb  \nc\n","&nbsp; &#0; &#x110000; &bogus;\n","<http://x> <mailto:a@b> www.x.com\n","1. a\n   1. b\n      - c\n        > d\n","    code\n\n\tTab\n","# \n\n#\n","[a\n","```\n","::::\n","$$\n"]
print(len(F))
st=collections.Counter(); ex={}; c=0; t=time.time()
D=int(sys.argv[1])
for n in range(1,D+1):
    for seq in itertools.product(F, repeat=n):
        for wrapk,wrap in (("top",lambda s:s),("quote",lambda s:"".join("> "+l+"\n" for l in s.split("\n")[:-1])),("note",lambda s:"`````{note}\n\n"+s+"`````\n")):
            if n==2 and wrapk!="top": continue
            s=wrap("\n".join(seq)); c+=1
            try: run(s)
            except Exception as e:
                k=sig(e); st[k]+=1
                if k not in ex or len(s)<len(ex[k]): ex[k]=s
print(c, time.time()-t)
for k,v in sorted(st.items(), key=lambda x:-x[1]): print(v,k,repr(ex[k])[:160])
