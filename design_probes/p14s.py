import tempfile, shutil, re, itertools, collections
from pathlib import Path
from docutils import nodes
from sphinx.testing.util import SphinxTestApp
TRIG={"topmatter":None,"duplicate_def":"[r]: u\n\n[r]: v\n","header":"### h3\n","directive_parse":"```{note} a\n:class: x\n\nb\n```\n","directive_option":"```{note}\n:bogus: 1\n```\n","directive_comments":"```{note}\n:class: x # c\n\nb\n```\n","directive_unknown":"```{nodir}\n```\n","role_unknown":"{norole}`x`\n","xref_missing":"[t](nodoc.md) [](#nope)\n","iref_missing":"[](inv:#zzz)\n","strikethrough":"~~s~~\n","html":"<div>\n<![foo x]>\n</div>\n","attribute":"![a](b.png){width=1x}\n","substitution":"{{ undefined_var }}\n","ref.footnote":"[^u]: unref\n","heading_slug":None}
docs={k:v for k,v in TRIG.items() if v}
def tags(w): return re.findall(r"\[([a-z_]+\.[a-z_]+)\]\s*$", w, re.M)
def match(tag, sup):
    ty,st=tag.split(".")
    for s in sup:
        a,_,b=s.partition(".")
        if a==ty and (b in ("",st,"*")): return True
    return False
def build(text, sup):
    tmp=Path(tempfile.mkdtemp(prefix="sx")); src=tmp/"src"; src.mkdir()
    (src/"conf.py").write_text(f"extensions=['myst_parser','sphinx.ext.intersphinx']\nmyst_enable_extensions=['strikethrough','substitution','attrs_inline','html_image','colon_fence']\nsuppress_warnings={sup!r}+['image.not_readable']\nmyst_heading_anchors=2\nkeep_warnings=True\n")
    (src/"index.md").write_text(text)
    app=SphinxTestApp(srcdir=src, buildername="html"); app.build()
    w=re.sub(r"\x1b\[[0-9;]*m","",app._warning.getvalue()).replace(str(src),"<src>")
    dt=app.env.get_doctree("index")
    for n_ in dt.findall():
        if hasattr(n_,'attributes') and 'source' in n_.attributes: n_['source']=str(n_['source']).replace(str(src),'<src>')
    dt['source']='<src>/index.md'
    res=(w, dt)
    app.cleanup(); shutil.rmtree(tmp); return res
def strip(dt, sup):
    dt=dt.deepcopy()
    for sm in list(dt.findall(nodes.system_message)):
        t=tags(sm.astext())
        if t and match(t[0],sup): sm.parent.remove(sm)
    return dt.pformat()
bad=0;n=0
for a in docs:
    text="# T\n\nPRE\n\n"+docs[a]+"\nPOST\n"
    w0,d0=build(text,[])
    tg=sorted(set(tags(w0))); nodes_tg=sorted(set(t for sm in d0.findall(nodes.system_message) for t in tags(sm.astext())))
    print(f"{a:20s} log={tg} nodes={nodes_tg}")
    for s in (tg[:1] and [tg[0], tg[0].split('.')[0], tg[0].split('.')[0]+".*"]):
        w1,d1=build(text,[s]); n+=1
        exp_w="".join(l+"\n" for l in w0.splitlines() if not (tags(l) and match(tags(l)[0],[s])))
        if w1!=exp_w or d1.pformat()!=strip(d0,[s]):
            bad+=1; print("   BAD",a,s, "| log ok" if w1==exp_w else "| LOG DIFF: "+repr(w1)[:150], "| tree ok" if d1.pformat()==strip(d0,[s]) else "| TREE DIFF")
print(n,bad)
