import io, zlib, itertools, posixpath, time
from myst_parser import inventory as mi
from sphinx.util.inventory import InventoryFile
def ser_v2(entries, proj="P", ver="1", trailing_nl=True):
    body = "\n".join(entries) + ("\n" if trailing_nl and entries else "")
    return (f"# Sphinx inventory version 2\n# Project: {proj}\n# Version: {ver}\n# The remainder of this file is compressed using zlib.\n").encode()+zlib.compress(body.encode())
def ser_v1(entries, proj="P", ver="1"):
    return (f"# Sphinx inventory version 1\n# Project: {proj}\n# Version: {ver}\n"+"".join(e+"\n" for e in entries)).encode()
class Chunked:
    def __init__(self, data, cuts): self.parts=[data[a:b] for a,b in zip([0]+cuts, cuts+[len(data)])]; self.i=0
    def read(self, n=-1):
        if self.i>=len(self.parts): return b""
        p=self.parts[self.i]; self.i+=1; return p
def myst_as_sphinx(inv):
    out={}
    for d,ts in inv["objects"].items():
        for t,ns in ts.items():
            for n,it in ns.items():
                out.setdefault(f"{d}:{t}",{})[n]=(inv["name"],inv["version"],it["loc"],it["text"] or "-")
    return out
def sphinx_load(b):
    inv = InventoryFile.loads(b, uri="")
    return {t:{n:(i.project_name,i.project_version,i.uri,i.display_name) for n,i in ns.items()} for t,ns in inv.data.items()}
pool = ["a py:function 1 p.html#$ -", "a b py:function 1 p.html#a-b A B", "m py:module 0 m.html#module-$ -", "m py:module 0 OTHER.html -", "l std:label -1 i.html#l Title Here", "x nocolon 1 u -", "bad", "", "L std:label -1 i.html#L2 Other", "t std:term -1 g.html#term-t -", "a py:function 1 q.html#$ dup"]
dis=0; tot=0
for k in range(0,4):
  for es in itertools.product(pool, repeat=k):
    for nl in (True,):
        b = ser_v2(list(es), trailing_nl=nl); tot+=1
        try: s = sphinx_load(b); serr=None
        except Exception as e: s=None; serr=e
        try: m = myst_as_sphinx(mi.load(io.BytesIO(b))); merr=None
        except Exception as e: m=None; merr=e
        if s!=m or (s is None) != (m is None):
            dis+=1
            if dis<12: print("DIS", es, nl, "\n  S", s, serr, "\n  M", m, merr)
print(tot, dis)
# chunking
b = ser_v2(pool[:3]); base = mi.load(io.BytesIO(b)); n=len(b); t=time.time(); c=0; bad=0
for i in range(1,n):
    c+=1
    try:
        if mi.load(Chunked(b,[i]))!=base: bad+=1
    except Exception as e: bad+=1; print("exc",i,repr(e)[:100])
for i,j in itertools.combinations(range(1,n),2):
    c+=1
    try:
        if mi.load(Chunked(b,[i,j]))!=base: bad+=1
    except Exception as e: bad+=1
for k in range(1,n+1):
    c+=1
    if mi.load(Chunked(b,list(range(k,n,k))))!=base: bad+=1; print("chunk size",k,"differs")
print("len",n,"schedules",c,"bad",bad,time.time()-t)
