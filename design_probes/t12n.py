import io, itertools, time, sys
from docutils import nodes
from docutils.utils import new_document
from docutils.frontend import get_default_settings
from markdown_it.renderer import RendererHTML
from markdown_it.tree import SyntaxTreeNode
from myst_parser.config.main import MdParserConfig
from myst_parser.parsers.mdit import create_md_parser
from myst_parser.parsers.docutils_ import Parser
from myst_parser.mdit_to_docutils.base import DocutilsRenderer

def tok_skel(node):
    """SyntaxTreeNode -> list of skeleton items"""
    out=[]
    for c in node.children:
        t=c.type
        if t in ("inline",): out += tok_skel(c); continue
        if t=="text":
            if c.content: out.append(("text", c.content))
        elif t=="softbreak": out.append(("text","\n"))
        elif t=="hardbreak": out.append(("hardbreak",))
        elif t=="code_inline": out.append(("code_inline", c.content))
        elif t in ("code_block",): out.append(("code", c.content, ""))
        elif t=="fence": out.append(("code", c.content, (c.info.strip().split() or [""])[0]))
        elif t in ("html_block","html_inline"): out.append(("html", c.content))
        elif t=="hr": out.append(("hr",))
        elif t=="image": out.append(("image", c.attrGet("src"), RendererHTML.renderInlineAsText(None, [x for x in (c.to_tokens()[0].children or [])], {}, {}) if False else alt_text(c)))
        elif t=="paragraph": out.append(("paragraph", tok_skel(c)))
        elif t=="heading": out.append(("heading", int(c.tag[1]), tok_skel(c)))
        elif t=="blockquote": out.append(("blockquote", tok_skel(c)))
        elif t=="bullet_list": out.append(("bullet_list", c.markup, tok_skel(c)))
        elif t=="ordered_list": out.append(("ordered_list", c.markup, c.attrGet("start"), tok_skel(c)))
        elif t=="list_item": out.append(("list_item", tok_skel(c)))
        elif t=="em": out.append(("em", tok_skel(c)))
        elif t=="strong": out.append(("strong", tok_skel(c)))
        elif t=="link": out.append(("link", c.attrGet("href"), tok_skel(c)))
        elif t=="table":
            rows=[]
            for sec in c.children:
                for r in sec.children:
                    rows.append(("row", [("cell", cell.attrGet("style"), tok_skel(cell)) for cell in r.children]))
            out.append(("table", rows))
        elif t=="dl": out.append(("dl", tok_skel(c)))
        elif t=="dt": out.append(("dt", tok_skel(c)))
        elif t=="dd": out.append(("dd", tok_skel(c)))
        elif t=="field_list": out.append(("field_list", tok_skel(c)))
        elif t=="fieldlist_name": out.append(("fname", tok_skel(c)))
        elif t=="fieldlist_body": out.append(("fbody", tok_skel(c)))
        elif t in ("math_inline","math_single"): out.append(("math", c.content))
        elif t in ("math_block","math_inline_double","math_block_label","amsmath"): out.append(("mathblock", c.content))
        elif t=="s": out.append(("s", tok_skel(c)))
        elif t=="myst_block_break": out.append(("break", c.content))
        elif t=="myst_line_comment": out.append(("comment", c.content.strip()))
        elif t=="myst_target": out.append(("target", c.content))
        else: out.append(("?"+t,))
    return merge_text(out)
def alt_text(c):
    r=""
    for ch in c.children or []:
        if ch.type=="text": r+=ch.content
        else: r+=alt_text(ch)
    return r
def merge_text(items):
    out=[]
    for it in items:
        if it[0]=="text" and out and out[-1][0]=="text": out[-1]=("text", out[-1][1]+it[1])
        else: out.append(it)
    return out
def doc_skel(node):
    out=[]
    ch=list(node.children); i=0
    while i<len(ch):
        c=ch[i]; i+=1
        if isinstance(c, nodes.Text):
            if str(c): out.append(("text", str(c)))
        elif isinstance(c, nodes.system_message): continue
        elif isinstance(c, nodes.raw):
            if c["format"]=="html" and c.astext()=="<br />\n" and i<len(ch) and isinstance(ch[i], nodes.raw) and ch[i]["format"]=="latex":
                i+=1; out.append(("hardbreak",))
            else: out.append(("html", c.astext()))
        elif isinstance(c, nodes.literal): out.append(("code_inline", c.astext()))
        elif isinstance(c, nodes.literal_block):
            cl=[x for x in c["classes"] if x!="code"]
            out.append(("code", c.astext(), cl[0] if cl else ""))
        elif isinstance(c, nodes.transition): out.append(("hr",))
        elif isinstance(c, nodes.image): out.append(("image", c["uri"], c["alt"]))
        elif isinstance(c, nodes.paragraph): out.append(("paragraph", doc_skel(c)))
        elif isinstance(c, nodes.section):
            title=c.children[0]
            out.append(("heading", None, doc_skel(title)))
            sub=nodes.Element(); 
            out += doc_skel_children(c.children[1:])
        elif isinstance(c, nodes.rubric): out.append(("heading", c["level"], doc_skel(c)))
        elif isinstance(c, nodes.block_quote): out.append(("blockquote", doc_skel(c)))
        elif isinstance(c, nodes.bullet_list): out.append(("bullet_list", c.get("bullet"), doc_skel(c)))
        elif isinstance(c, nodes.enumerated_list): out.append(("ordered_list", c["suffix"], c.get("start"), doc_skel(c)))
        elif isinstance(c, nodes.list_item): out.append(("list_item", doc_skel(c)))
        elif isinstance(c, nodes.emphasis): out.append(("em", doc_skel(c)))
        elif isinstance(c, nodes.strong): out.append(("strong", doc_skel(c)))
        elif isinstance(c, nodes.reference): out.append(("link", c.get("refuri", c.get("refname")), doc_skel(c)))
        elif isinstance(c, nodes.table):
            rows=[]
            for r in c.findall(nodes.row):
                cells=[]
                for e in r.children:
                    st=[x for x in e["classes"] if x.startswith("text-")]
                    cells.append(("cell", ("text-align:"+st[0][5:]) if st else None, doc_skel(e.children[0])))
                rows.append(("row", cells))
            out.append(("table", rows))
        elif isinstance(c, nodes.definition_list):
            items=[]
            for it in c.children:
                for x in it.children:
                    if isinstance(x,nodes.term): items.append(("dt", doc_skel(x)))
                    elif isinstance(x,nodes.definition): items.append(("dd", doc_skel(x)))
                    else: items.append(("?"+x.tagname,))
            out.append(("dl", items))
        elif isinstance(c, nodes.field_list):
            items=[]
            for f in c.children:
                items.append(("fname", doc_skel(f[0]))); 
                if len(f[1].children): items.append(("fbody", doc_skel(f[1])))
            out.append(("field_list", items))
        elif isinstance(c, nodes.math): out.append(("math", c.astext()))
        elif isinstance(c, nodes.math_block): out.append(("mathblock", c.astext()))
        elif isinstance(c, nodes.comment): out.append(("break" if "block_break" in c["classes"] else "comment", c.astext()))
        elif isinstance(c, nodes.target): out.append(("target", c.get("refid") or (c["names"] or [""])[0]))
        else: out.append(("?"+c.tagname,))
    return merge_text(out)
def doc_skel_children(children):
    e=nodes.Element(); 
    class W: pass
    w=W(); w.children=children
    return doc_skel(w)
def strip_levels(sk):
    return [ (("heading", None, x[2]) if x[0]=="heading" else x) for x in sk]
def run(text, cfg):
    md = create_md_parser(cfg, RendererHTML)
    toks = md.parse(text)
    ts = tok_skel(SyntaxTreeNode(toks))
    doc = new_document("<s>", get_default_settings(Parser))
    doc.settings.halt_level=5; doc.settings.report_level=5; doc.settings.warning_stream=io.StringIO()
    doc.settings.myst_commonmark_only=cfg.commonmark_only; doc.settings.myst_enable_extensions=list(cfg.enable_extensions)
    Parser().parse(text, doc)
    ds = doc_skel(doc)
    return ts, ds
INL = ["a", "*e*", "**s**", "`c`", "[l](u)", "![i](v)", "<b>", "<http://x>", "\\\n", "\n", "[*n*](w \"t\")", "**[k](z)**"]
def inlines(n):
    for tup in itertools.product(INL, repeat=n): yield " ".join(tup)
BLK = []
import sys
MODE=sys.argv[1]
cfg = MdParserConfig(commonmark_only=(MODE=="cm"), enable_extensions=(["dollarmath","strikethrough","deflist","fieldlist","colon_fence","attrs_inline","attrs_block","smartquotes","replacements","tasklist","amsmath"] if MODE=="ext" else []))
def blocks():
    for i in inlines(1):
        yield i+"\n"
        yield "# "+i.replace("\n"," ")+"\n"
        yield "> "+i.replace("\n","\n> ")+"\n"
        yield "- "+i.replace("\n","\n  ")+"\n"
        yield "3) "+i.replace("\n","\n   ")+"\n"
        yield "|h|k|\n|:-|-:|\n|"+i.replace("\n"," ")+"|x|\n"
    yield "Term *e*\n: def `c`\n\nT2\n: d2\n: d3\n"; yield ":name *e*: body `c`\n:n2:\n"; yield "$$\nm\n$$\n"; yield "$$m$$ (lbl)\n"; yield "a $m$ ~~s *e*~~ b\n"; yield "+++ meta\n"; yield "% com\n"; yield "(tgt)=\n"; yield "\\begin{equation}a\\end{equation}\n"; yield "- [ ] t\n- [x] u\n"; yield "\"q\" -- (c) ...\n"
    yield "```py\ncode\n```\n"; yield "    ind\n"; yield "<div>\nh\n</div>\n"; yield "---\n"; yield "***\n"
B=list(blocks()); print(len(B))
bad=0; c=0; t=time.time()
for a,b in itertools.product(B[-16:], B[::5]+B[-16:]):
    text = a+"\n"+b
    for wrap in (lambda s:s, lambda s:"".join("> "+l+"\n" for l in s.split("\n")[:-1]), lambda s:"- x\n\n"+"".join("  "+l+"\n" for l in s.split("\n")[:-1])):
        tx=wrap(text); c+=1
        try: ts,ds = run(tx,cfg)
        except Exception as e: print('EXC',repr(tx),type(e).__name__); continue
        if strip_levels(ts)!=strip_levels(ds) if False else norm(ts)!=norm(ds) if False else repr(strip_levels(ts))!=repr(strip_levels(ds)):
            bad+=1
            if bad<6: print("MISMATCH", repr(tx)); print(" T", strip_levels(ts)); print(" D", strip_levels(ds))
print(c, bad, time.time()-t)
