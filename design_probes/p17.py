import io, itertools, re, collections
from html.parser import HTMLParser
from docutils import nodes
from docutils.utils import new_document
from docutils.frontend import get_default_settings
from myst_parser.config.main import MdParserConfig
from myst_parser.parsers.mdit import create_md_parser
from myst_parser.parsers.docutils_ import Parser
from myst_parser.mdit_to_docutils.base import DocutilsRenderer
from markdown_it.renderer import RendererHTML
SET=get_default_settings(Parser)
def render(text, cfg, gfm=False):
    ws=io.StringIO(); s=SET.copy(); s.halt_level=5; s.report_level=2; s.warning_stream=ws
    doc=new_document("<s>", s)
    md=create_md_parser(cfg, DocutilsRenderer)
    if gfm: md.disable("linkify"); md.options["linkify"]=False
    md.options["document"]=doc; md.render(text)
    return doc, ws.getvalue()
def html_tokens(text, cfg, gfm=False):
    md=create_md_parser(cfg, RendererHTML)
    if gfm: md.disable("linkify"); md.options["linkify"]=False
    out=[]
    def rec(ts):
        for t in ts:
            if t.type in("html_block","html_inline"): out.append(t.content)
            if t.children: rec(t.children)
    rec(md.parse(text)); return out
# pass-through
FR=['<div>x</div>\n','<span class="admonition">y</span>\n','a <b>c</b> d\n','<!-- c -->\n','<div class="admonition">\n<p>t</p>\n','<img src="a.png">\n<p>x</p>\n','text <img src="a.png"> tail\n','<div class="x">\n','<?php x ?>\n','<img src="a.png" alt="A">\n','<div class="admonition note">\n<p class="title">T</p>\n<p>body</p>\n</div>\n']
bad=0
for f in FR:
  for ctx in (lambda s:s, lambda s:"".join("> "+l+"\n" for l in s.split("\n")[:-1]), lambda s:"- i\n\n"+"".join("  "+l+"\n" for l in s.split("\n")[:-1])):
    text=ctx(f)
    outs={}
    for exts in ([],["html_image"],["html_admonition"],["html_image","html_admonition"]):
        cfg=MdParserConfig(enable_extensions=exts)
        toks=html_tokens(text,cfg); d,w=render(text,cfg)
        raws=[r.astext() for r in d.findall(nodes.raw)]
        outs[tuple(exts)]=(toks,raws)
    base=outs[()]
    if base[0]!=base[1]: bad+=1; print("PASS-THROUGH BASE MISMATCH", repr(text), base)
    for k,v in outs.items():
        if v[1]!=base[1]: print("  converted under",k,repr(text)[:50], "raws",len(v[1]),"vs",len(base[1]))
print("bad",bad)
# GFM filter
NAMES=["iframe","noembed","noframes","plaintext","script","style","title","textarea","xmp"]
class P(HTMLParser):
    def __init__(s): super().__init__(convert_charrefs=False); s.tags=[]
    def handle_starttag(s,t,a): s.tags.append(("start",t))
    def handle_endtag(s,t): s.tags.append(("end",t))
    def handle_startendtag(s,t,a): s.tags.append(("start",t))
cfg=MdParserConfig(gfm_only=True)
st=collections.Counter(); ex={}
for name in NAMES:
  for cs in (str.lower,str.upper,str.title):
    for close in ("","/"):
      for follow in (">"," >","/>","\n>","\t>"," a=1>","x>","-x>",""):
        for tmpl in ("<div>\n{T}\n</div>\n", "a {T} b\n", "{T}\n", "<{N2}>\n{T}\n"):
            T="<"+close+cs(name)+follow
            text=tmpl.replace("{T}",T).replace("{N2}","p")
            d,w=render(text,cfg,gfm=True)
            raw="".join(r.astext() for r in d.findall(nodes.raw))
            p=P(); p.feed(raw); p.close()
            hit=[t for t in p.tags if t[1].lower() in NAMES]
            istag = follow not in ("x>","-x>","")
            key=("tag" if istag else "nontag", "LEAK" if hit else "clean")
            st[key]+=1
            if hit: ex.setdefault((key,follow,tmpl),(text,raw,hit))
print(st)
for k,v in list(ex.items())[:12]: print(k,v)
