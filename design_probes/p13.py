import dataclasses as dc
from myst_parser.config.main import MdParserConfig, merge_file_level
POOL=[None, True, False, 0, 1, 7, 8, -1, 1.5, "", "x", "dollarmath", "myst_parser.config.main._test_slug_func", "no.such.func", "nodots", [], ["x"], ["dollarmath"], [1], ("a","b"), ["{","}"], ["ab","c"], {"x"}, {}, {"x":"y"}, {"x":1}, {"x":None}, {1:"y"}, {"http":{"url":"u","title":"t","classes":["c"]}}, {"http":{"url":1}}, {"http":{"classes":"abc"}}, {"http":{"classes":[1]}}, {"k":["u",None]}, {"k":["u","p"]}, {"k":["u"]}, {"k":[1,None]}]
rows=[]
for f in dc.fields(MdParserConfig):
    acc=[]; exc=set()
    for i,v in enumerate(POOL):
        try: MdParserConfig(**{f.name:v}); acc.append(i)
        except (TypeError,ValueError) as e: pass
        except Exception as e: exc.add((i,type(e).__name__))
    print(f"{f.name:24s} {str(f.type)[:34]:34s} acc={[repr(POOL[i])[:18] for i in acc]} OTHER_EXC={exc}")
