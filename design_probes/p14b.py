import io, itertools, re
from docutils import nodes
from docutils.core import publish_doctree
from myst_parser.parsers.docutils_ import Parser
from myst_parser.warnings_ import MystWarnings
open("/tmp/scratch/bad.inv","w").write("x")
EXT=["colon_fence","deflist","fieldlist","strikethrough","substitution","attrs_inline","attrs_block","html_image","html_admonition","dollarmath"]
def run(text, sup=(), **ov):
    ws = io.StringIO()
    d = publish_doctree(text, source_path="/tmp/scratch/x.md", parser=Parser(), settings_overrides={"warning_stream": ws, "report_level":2, "halt_level":5, "myst_enable_extensions":EXT, "myst_suppress_warnings":list(sup), "myst_inventories":{"k":["http://x","/tmp/scratch/bad.inv"]}, "myst_heading_anchors":2, **ov})
    return d, ws.getvalue()
TRIG = {
 "not_supported": "<path:a.txt>\n",
 "topmatter": None,
 "duplicate_def": "[r]: u\n\n[r]: v\n",
 "header": "## h2\n\n#### h4\n",
 "directive_parse": "```{note} a\n:class: x\n\nb\n```\n",
 "directive_option": "```{note}\n:bogus: 1\n```\n",
 "directive_comments": "```{note}\n:class: x # c\n\nb\n```\n",
 "directive_unknown": "```{nodir}\n```\n",
 "role_unknown": "{norole}`x`\n",
 "xref_missing": "[](#nope)\n",
 "inv_retrieval+iref_missing": "[](inv:#zzz)\n",
 "strikethrough": "~~s~~\n",
 "html": "<div>\n<![foo x]>\n</div>\n",
 "attribute": "![a](b){width=1x}\n",
 "substitution": "{{ undefined_var }}\n",
 "ref.footnote": "[^u]: unref\n",
}
def tags(w): return re.findall(r"\[([a-z_]+\.[a-z_]+)\]\s*$", w, re.M)
docs = {k:v for k,v in TRIG.items() if v}
for k,v in docs.items():
    d,w = run(v)
    print(k, "->", sorted(set(tags(w))))
# relational check on pairs
def strip_nodes(doc, sup):
    doc=doc.deepcopy()
    for sm in list(doc.findall(nodes.system_message)):
        t=tags(sm.astext())
        if t and match(t[0],sup): sm.parent.remove(sm)
    return doc.pformat()
def match(tag, sup):
    ty,st=tag.split(".")
    for s in sup:
        a,_,b = s.partition(".")
        if a==ty and (b in ("",st,"*")): return True
    return False
bad=0; n=0
alltags=["myst."+m.value for m in MystWarnings]+["ref.footnote","myst","myst.*","ref"]
for a,b in itertools.combinations(docs,2):
    text="PRE\n\n"+docs[a]+"\n"+docs[b]+"\nPOST\n"
    d0,w0=run(text, doctitle_xform=False)
    for s in alltags:
        d1,w1=run(text,[s], doctitle_xform=False); n+=1
        exp_w="".join(l+"\n" for l in w0.splitlines() if not (tags(l) and match(tags(l)[0],[s])))
        if w1!=exp_w or d1.pformat()!=strip_nodes(d0,[s]):
            bad+=1
            print("BAD",a,b,s)
print(n,bad)
