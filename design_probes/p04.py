import io, itertools, time, re, collections, sys, os
from docutils import nodes
from docutils.core import publish_doctree
from myst_parser.parsers.docutils_ import Parser
EXT=["colon_fence","deflist","fieldlist","attrs_block"]
os.makedirs("/tmp/scratch/w4",exist_ok=True)
def run(text):
    ws = io.StringIO()
    d = publish_doctree(text, source_path="/tmp/scratch/w4/x.md", parser=Parser(), settings_overrides={"warning_stream": ws, "report_level":2, "halt_level":5, "myst_enable_extensions":EXT, "doctitle_xform":False})
    return d, ws.getvalue()
# A block renders to list of lines and list of (marker, relative line index, kind)
CNT=[0]
def mk(): CNT[0]+=1; return f"MK{CNT[0]}"
def leaf(kind):
    m=mk()
    if kind=="para": return [m+" text"], [(m,0,"paragraph")]
    if kind=="para2": return [m+" text","second line"], [(m,0,"paragraph")]
    if kind=="head": return ["## "+m], [(m,0,"heading")]
    if kind=="code": return ["```py", m, "```"], [(m,0,"literal_block")]
    if kind=="tgt": return [f"({m.lower()})=", m+" after target"], [(m,1,"paragraph")]
    if kind=="list": return ["- "+m, "- item"], [(m,0,"paragraph")]
    if kind=="unkdir": return ["```{"+m.lower()+"}", "```"], [(m.lower(),0,"warn")]
    if kind=="unkrole": return ["{"+m.lower()+"}`x` tail"], [(m.lower(),0,"warn")]
LEAVES=["para","para2","head","code","tgt","list","unkdir","unkrole"]
def wrap(kind, inner, depth):
    lines, marks = inner
    if kind=="quote": return ["> "+l if l else ">" for l in lines], marks
    if kind=="bullet": return [("- " if i==0 else "  ")+l if l else "" for i,l in enumerate(lines)], marks
    if kind=="ordered": return [("1. " if i==0 else "   ")+l if l else "" for i,l in enumerate(lines)], marks
    if kind=="div": f=":"*(4+depth); return [f]+lines+[f], [(m,i+1,k) for m,i,k in marks]
    if kind.startswith("dir"):
        _, fence, opts, blank_after, blank_before, name = kind.split("|")
        f=(fence)*(4+depth)
        head=[f+"{"+name+"}"+(" Title" if name=="admonition" else "")]
        o={"none":[], "one":[":class: c"], "two":[":class: c",":name: n"+mk().lower()], "yaml":["---","class: c","---"]}[opts]
        pre=head+o+([""] if blank_after=="1" else [])
        if fence==":" and not o and lines and lines[0].startswith(":") and blank_after=="0": pass
        post=([""] if blank_before=="1" else [])+[f]
        return pre+lines+post, [(m,i+len(pre),k) for m,i,k in marks]
DIRS=[f"dir|{f}|{o}|{ba}|{bb}|{n}" for f in "`:" for o in ("none","one","two","yaml") for ba in "01" for bb in "01" for n in ("note","admonition")]
WRAPS=["quote","bullet","ordered","div"]+DIRS
def check(lines, marks):
    text="\n".join(lines)+"\n"
    d,w=run(text)
    res=[]
    for m,i,k in marks:
        exp=i+1
        if k=="warn":
            ls=[int(x) for x in re.findall(r":(\d+): \(WARNING/2\)[^\n]*"+m, w)]
            res.append((m,k,exp,ls[0] if len(ls)==1 else ("n=%d"%len(ls))))
        else:
            found=[n for n in d.findall(lambda n: isinstance(n,(nodes.paragraph,nodes.title,nodes.rubric,nodes.literal_block))) if m in n.astext().split()]
            # choose innermost smallest
            found=[n for n in found if not any((c is not n and c in found) for c in n.findall())]
            res.append((m,k,exp,found[0].line if found else None))
    return text,res
st=collections.Counter(); ex={}
t=time.time(); c=0
D=int(sys.argv[1])
for lk in LEAVES:
  for ws in itertools.chain(*[itertools.product(WRAPS, repeat=d) for d in range(0,D+1)]):
    # skip first-line conflicts: dir with no opts and inner starts with ':' or '---'
    blk=leaf(lk)
    ok=True
    for depth,wk in enumerate(reversed(ws)):
        if wk.startswith("dir"):
            _,fence,opts,ba,bb,nm=wk.split("|")
            first=blk[0][0] if blk[0] else ""
            if opts=="none" and ba=="0" and (first.startswith("---") or (first.startswith(":") and not (fence==":" and first.startswith(":::")))): ok=False
        blk=wrap(wk, blk, depth)
    if not ok: continue
    text,res=check(*blk); c+=1
    for m,k,exp,got in res:
        key="ok" if got==exp else f"{k}:{(got-exp) if isinstance(got,int) else got}"
        st[key]+=1
        if key!="ok":
            feat=tuple((w.split('|')[0]+(w.split('|')[1] if w.startswith('dir') else '')+('|bb1' if w.startswith('dir') and w.split('|')[4]=='1' and w.split('|')[2]!='none' else '')+('|noopt-noblank' if w.startswith('dir') and w.split('|')[2]=='none' and w.split('|')[3]=='0' else '')) for w in ws)
            ex.setdefault((key,feat),text)
print(c,time.time()-t,st)
for (k,f),tx in list(ex.items())[:25]: print(k,f,repr(tx))
