import dataclasses as dc, copy, collections
from myst_parser.config.main import MdParserConfig, merge_file_level
src=open("p13.py").read(); POOL=eval(src[src.index("POOL=[")+5: src.index("\nrows=[]")])
st=collections.Counter(); ex={}
def canon(v):
    if isinstance(v,(list,tuple)): return ("seq",tuple(canon(x) for x in v))
    if isinstance(v,set): return ("set",tuple(sorted(map(repr,v))))
    if isinstance(v,dict): return ("dict",tuple(sorted((repr(k),canon(x)) for k,x in v.items())))
    if callable(v): return ("callable", getattr(v,"__name__","?"))
    return v
g=MdParserConfig(html_meta={"g":"G"}, substitutions={"g":1})
gsnap=repr(g.as_dict())
for f in dc.fields(MdParserConfig):
    for v in POOL:
        try: c=MdParserConfig(**{f.name:v}); ok=True
        except Exception: ok=False
        warns=[]
        try:
            m=merge_file_level(g, {"myst":{f.name: copy.deepcopy(v)}}, lambda t,msg: warns.append(msg))
        except Exception as e:
            st["merge-EXC"]+=1; ex.setdefault(("merge-EXC",f.name),(v,repr(e))); continue
        if repr(g.as_dict())!=gsnap: st["GLOBAL-MUTATED"]+=1; ex.setdefault(("GLOBAL",f.name),v)
        got=getattr(m,f.name)
        if ok:
            exp=getattr(c,f.name)
            if f.metadata.get("merge_topmatter"): exp={**getattr(g,f.name), **exp}
            if warns: st["valid-but-warned"]+=1; ex.setdefault(("valid-warned",f.name),(v,warns))
            elif canon(got)!=canon(exp):
                key="NOT-CANON" if (type(got)!=type(exp)) else "DIFF"
                st[key]+=1; ex.setdefault((key,f.name),(v,got,exp))
            else: st["ok-valid"]+=1
        else:
            if len(warns)!=1: st["invalid-warncount-%d"%len(warns)]+=1; ex.setdefault(("invalid-warn",f.name),(v,warns))
            elif canon(got)!=canon(getattr(g,f.name)): st["invalid-but-changed"]+=1; ex.setdefault(("invalid-changed",f.name),(v,got))
            else: st["ok-invalid"]+=1
print(st)
for k,v in ex.items(): print(k, repr(v)[:200])
