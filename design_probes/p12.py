import io, os, re, shutil, tempfile, posixpath, collections, itertools, time
from pathlib import Path
from docutils import nodes
from sphinx.testing.util import SphinxTestApp
tmp=Path(tempfile.mkdtemp(prefix="sx")); src=tmp/"src"
DIRS=["","a","a/b","c"]
for d in DIRS: (src/d).mkdir(parents=True, exist_ok=True)
(src/"conf.py").write_text("extensions=['myst_parser']\nmyst_heading_anchors=3\nsuppress_warnings=['toc.not_included']\n")
def dn(d,n): return (d+"/" if d else "")+n
targets={}
for i,d in enumerate(DIRS):
    name=dn(d,f"t{i}")
    (src/(name+".md")).write_text(f"(lbl-t{i})=\n# Title T{i} *em*\n\n## Sub\n\n## Sub\n\n(lbl-p{i})=\npara\n")
    (src/dn(d,f"f{i}.txt")).write_text("file")
    targets[name]=i
links=[]  # (source doc, marker, kind, target info, explicit)
k=0
srcs={}
for j,sd in enumerate(DIRS):
    sname=dn(sd,f"s{j}")
    body=[f"# Source {j}\n"]
    for tname,i in targets.items():
        rel=posixpath.relpath(tname+".md", sd or ".")
        spell={"rel":rel,"dot":"./"+rel,"abs":"/"+tname+".md","noext":rel[:-3],"detour":posixpath.join("..", posixpath.relpath(tname+".md", posixpath.dirname(sd) if sd else "..")) if sd else None}
        for sp,dest in spell.items():
            if dest is None: continue
            for anchor,kind in (("","page"),("#sub","sub"),("#sub-1","sub1"),("#nope","badanchor")):
                if sp=="noext" and anchor: continue
                for explicit in (True,False):
                    k+=1; m=f"LK{k}"
                    txt=f"{m} *x*" if explicit else ""
                    body.append(f"P{m} [{txt}]({dest}{anchor})\n")
                    links.append((sname,m,kind,tname,explicit,sp))
        # project: and label spellings
        for form,kind in ((f"<project:{rel}>","page"),(f"<project:{rel}#sub>","sub"),(f"[](#lbl-t{i})","label-t"),(f"[](lbl-t{i})","label-t"),(f"[](#lbl-p{i})","label-p")):
            k+=1; m=f"LK{k}"; body.append(f"P{m} {form}\n"); links.append((sname,m,kind,tname,False,"form"))
        frel=posixpath.relpath(dn(posixpath.dirname(tname),f"f{i}.txt"), sd or ".")
        for form in (f"[{{M}} d]({frel})", f"<path:{frel}>"):
            k+=1; m=f"LK{k}"; body.append(f"P{m} "+form.replace("{M}",m)+"\n"); links.append((sname,m,"file",dn(posixpath.dirname(tname),f"f{i}.txt"),"{M}" in form,"file"))
    for form,kind in (("[{M} t](nodoc.md)","missing"),("[{M} t](#nolabel)","missing"),("<project:nodoc.md>","missing-auto")):
        k+=1; m=f"LK{k}"; body.append(f"P{m} "+form.replace("{M}",m)+"\n"); links.append((sname,m,kind,None,"{M}" in form,"missing"))
    (src/(sname+".md")).write_text("\n".join(body)); srcs[sname]=j
(src/"index.md").write_text("# Index\n\n```{toctree}\n"+"\n".join(list(targets)+list(srcs))+"\n```\n")
t=time.time(); app=SphinxTestApp(srcdir=src, buildername="html"); app.build(); print("build",time.time()-t, "links",len(links))
# ids from target doctrees
tid={}
for tname,i in targets.items():
    dt=app.env.get_doctree(tname)
    secs=[s for s in dt.findall(nodes.section)]
    tid[tname]={"page":"", "sub":secs[1]["ids"][0], "sub1":secs[2]["ids"][0], "label-t":secs[0]["ids"][0] if False else None}
    tid[tname]["label-t"]=[i_ for i_ in secs[0]["ids"] if "lbl" in i_][0]
    tid[tname]["label-p"]=[p["ids"][0] for p in dt.findall(nodes.paragraph) if p["ids"]][0]
    tid[tname]["title"]=secs[0][0].astext()
st=collections.Counter(); ex={}
for sname in srcs:
    app._warning.truncate(0); app._warning.seek(0)
    dt=app.env.get_and_resolve_doctree(sname, app.builder)
    warns=re.sub(r"\x1b\[[0-9;]*m","",app._warning.getvalue())
    paras={p.astext().split()[0][1:]:p for p in dt.findall(nodes.paragraph) if p.astext().startswith("PLK")}
    for (s,m,kind,tname,explicit,sp) in links:
        if s!=sname: continue
        p=paras.get(m)
        refs=[r for r in p.findall(lambda n: isinstance(n,nodes.reference) or n.tagname=="download_reference")] if p is not None else []
        sd=posixpath.dirname(sname)
        if kind in("page","sub","sub1","label-t","label-p"):
            exp=posixpath.relpath(tname+".html", sd or ".")+("#"+tid[tname][kind] if tid[tname][kind] else "")
            got=(refs[0].get("refuri") or ("refid="+str(refs[0].get("refid")))) if len(refs)==1 else f"nrefs={len(refs)}"
            if posixpath.normpath(got.split("#")[0])+("#"+got.split("#")[1] if "#" in got else "")!=exp and got!=exp: key="URI-MISMATCH"
            else:
                txt=refs[0].astext()
                if explicit: key="ok" if txt==f"{m} x" and list(refs[0].findall(nodes.emphasis)) else "TEXT-EXPL"
                else:
                    want={"page":tid[tname]["title"],"sub":"Sub","sub1":"Sub","label-t":tid[tname]["title"],"label-p":None}[kind]
                    key="ok" if (want is None or txt==want) else "TEXT-IMPL:"+kind
            nw=warns.count(m) if explicit else 0
        elif kind=="badanchor":
            key="ok" if len(refs)==1 else "BADANCHOR-NOREF"
        elif kind=="file":
            key="ok" if (len(refs)==1 and refs[0].tagname=="download_reference" and refs[0].get("filename","").endswith(posixpath.basename(tname))) else "FILE"
        else:
            key="ok-missing"
        st[key]+=1
        if not key.startswith("ok"): ex.setdefault((key,sp,kind),(sname,m,tname,explicit,[ (r.tagname,r.attributes.get("refuri"),r.astext()) for r in refs], locals().get("exp")))
    nm=len(re.findall(r"\[myst.xref_missing\]",warns)); st["warn-lines:"+sname]=nm
print(st)
for k_,v in list(ex.items())[:20]: print(k_,v)
app.cleanup(); shutil.rmtree(tmp)
