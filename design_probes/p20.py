import io, sys, re, os, collections
from docutils.core import publish_doctree, publish_string
from docutils import nodes
from myst_parser.parsers.docutils_ import Parser
W="/tmp/scratch/w20"; os.makedirs(W,exist_ok=True)
open(f"{W}/sent.md","w").write("FILESENT1 <b data-s=\"91\">x</b>\n"); open(f"{W}/sent.rst","w").write("FILESENT2\n"); open(f"{W}/sent.csv","w").write("FILESENT3,b\n"); open(f"{W}/sent.html","w").write("<i data-s=\"92\">FILESENT4</i>\n"); open(f"{W}/sent.py","w").write("FILESENT5 = 1\n")
EXT=["colon_fence","html_image","html_admonition","strikethrough","substitution","attrs_inline","dollarmath"]
opened=[]
sys.addaudithook(lambda ev,a: opened.append(a[0]) if ev=="open" and isinstance(a[0],str) and "/w20/sent" in a[0] else None)
def run(text, subs, **ov):
    so={"report_level":2, "halt_level":5, "myst_enable_extensions":EXT, "myst_substitutions":subs, **ov}
    ws=io.StringIO()
    d = publish_doctree(text, source_path=f"{W}/x.md", parser=Parser(), settings_overrides={**so,"warning_stream":ws})
    h = publish_string(text, source_path=f"{W}/x.md", parser=Parser(), writer_name="html5", settings_overrides={**so,"output_encoding":"unicode","embed_stylesheet":False,"warning_stream":io.StringIO()})
    return d, ws.getvalue(), h
def S(i): return f'<b data-s="{i}">p</b>'
RAWC={ "htmlblock":(lambda i:f"<div>{S(i)}</div>\n"), "htmlinline":(lambda i:f"in {S(i)} line\n"), "rawdir":(lambda i:f"```{{raw}} html\n{S(i)}\n```\n"),
 "rawrole":(lambda i:f"```{{role}} rh{i}(raw)\n:format: html\n```\n\n{{rh{i}}}`{S(i)}`\n"), "rst-raw":(lambda i:f"```{{eval-rst}}\n.. raw:: html\n\n   {S(i)}\n```\n"),
 "rst-rawrole":(lambda i:f"```{{eval-rst}}\n.. role:: rr{i}(raw)\n   :format: html\n\n:rr{i}:`{S(i)}`\n```\n"),
 "hardbreak":(lambda i:"a\\\nb\n"), "strike":(lambda i:"~~s~~\n"), "img":(lambda i:f'<img src="a.png" alt=\'{S(i)}\'>\n'), "admon":(lambda i:f'<div class="admonition">\n<p>{S(i)}</p>\n</div>\n'),
 "math-role":(lambda i:f"{{math}}`{S(i)}`\n"), "code":(lambda i:f"```html\n{S(i)}\n```\n"), "rawdir-latex":(lambda i:f"```{{raw}} latex\n{S(i)}\n```\n"), "only-html? container":(lambda i:f":::{{container}} c\n{S(i)}\n:::\n"),
 "subst-html":(lambda i:"{{rawsub}}\n"), "meta":(lambda i:f"```{{meta}}\n:description: {S(i)}\n```\n"), "title-attr":(lambda i:f"[l](u '{S(i)}')\n"), "parsed-literal":(lambda i:f"```{{parsed-literal}}\n{S(i)}\n```\n")}
FILEC={"include":"```{include} sent.md\n```\n","include-lit":"```{include} sent.md\n:literal:\n```\n","include-code":"```{include} sent.py\n:code: python\n```\n","include-sa":"```{include} sent.md\n:start-after: FILE\n```\n",
 "rawfile":"```{raw} html\n:file: sent.html\n```\n","csvfile":"```{csv-table}\n:file: sent.csv\n```\n","rst-include":"```{eval-rst}\n.. include:: sent.rst\n```\n","rst-csv":"```{eval-rst}\n.. csv-table::\n   :file: sent.csv\n```\n","rst-rawfile":"```{eval-rst}\n.. raw:: html\n   :file: sent.html\n```\n",
 "rst-include-lit":"```{eval-rst}\n.. include:: sent.rst\n   :literal:\n```\n","image":"```{image} sent.html\n```\n","figure":"```{figure} sent.md\n```\n", "rst-literalinclude?":"```{eval-rst}\n.. include:: sent.py\n   :code: python\n```\n", "rst-table-file":"```{eval-rst}\n.. csv-table::\n   :header-rows: 0\n   :file: sent.csv\n   :encoding: utf-8\n```\n"}
CTX={"top":lambda s:s,"quote":lambda s:"".join("> "+l+"\n" for l in s.split("\n")[:-1]),"list":lambda s:"- i\n\n"+"".join("  "+l+"\n" if l else "\n" for l in s.split("\n")[:-1]),"note":lambda s:"``````{note}\n\n"+s+"``````\n","div":lambda s:"::::::{div}\n"+s+"::::::\n","incl":None,"subst":None}
res=collections.Counter(); ex={}
i=100
for cname,mk in list(RAWC.items())+[(k,(lambda i,v=v:v)) for k,v in FILEC.items()]:
  for ctxn,ctx in CTX.items():
    i+=1; body=mk(i); subs={"rawsub":S(i)}
    if ctxn=="incl":
        open(f"{W}/wrap{i}.md","w").write(body); text=f"PRE\n\n```{{include}} wrap{i}.md\n```\n\nPOST\n"
    elif ctxn=="subst":
        subs["k"]=body; text="PRE\n\n{{k}}\n\nPOST\n"
    else: text="PRE\n\n"+ctx(body)+"\nPOST\n"
    for raw in (True,False):
      for fi in (True,False):
        del opened[:]
        try: d,w,h=run(text,subs,raw_enabled=raw,file_insertion_enabled=fi)
        except Exception as e: res[("EXC",type(e).__name__)]+=1; ex.setdefault(("EXC",cname,ctxn),repr(e)[:100]); continue
        nraw=len(list(d.findall(nodes.raw))); sent=f'data-s="{i}"' in h or 'data-s="9' in h; fsent=bool(re.search(r"FILESENT\d",h+d.astext())); op=[o for o in opened if "wrap" not in o]
        marks=("PRE" in h and "POST" in h)
        v=[]
        if not raw and nraw: v.append("RAWNODE")
        if not raw and sent: v.append("RAWSENT")
        if not fi and ctxn!="incl" and fsent: v.append("FILESENT")
        if not fi and ctxn!="incl" and op: v.append("OPENED")
        if not marks: v.append("MARKS")
        for x in v: res[x]+=1; ex.setdefault((x,cname,ctxn,raw,fi),(text[:80],w[:100]))
        if not v: res["ok"]+=1
        if raw and fi: res["positive-raw" if (nraw or sent) else "nopos-raw"]+=0
print(res)
for k,v in list(ex.items())[:30]: print(k,v)
