import io, itertools, time, sys, collections, traceback, os, shutil, tempfile, re
from pathlib import Path
from sphinx.testing.util import SphinxTestApp
src=open("p01f.py").read()
F=eval(src[src.index("F=[")+2: src.index("\nprint(len(F))")])
def sig(e):
    tb=traceback.extract_tb(e.__traceback__)
    inner=[f for f in tb if "myst_parser" in f.filename]
    last=tb[-1]
    return (type(e).__name__, (inner[-1].name if inner else "?"), last.filename.split("site-packages/")[-1].split("/repo/")[-1]+":"+last.name)
tmp=Path(tempfile.mkdtemp(prefix="sx")); srcd=tmp/"src"; (srcd/"adir").mkdir(parents=True)
EXT=["amsmath","attrs_inline","attrs_block","colon_fence","deflist","dollarmath","fieldlist","html_admonition","html_image","replacements","smartquotes","strikethrough","substitution","tasklist"]
(srcd/"conf.py").write_text(f"extensions=['myst_parser']\nmyst_enable_extensions={EXT!r}\nmyst_heading_anchors=2\nmyst_title_to_header=True\nmyst_substitutions={{'a':'{{{{b}}}}','b':'{{{{a}}}}','c':'{{{{ 1/0 }}}}','e':'# H'}}\nmyst_fence_as_directive=['mermaid','note']\n")
(srcd/"index.md").write_text("# I\n"); (srcd/"t.md").write_text("x\n"); (srcd/"ok.md").write_text("# Inc\n\npara\n"); (srcd/"bin.md").write_bytes(b"\xff\xfe\x00"); (srcd/"q.txt").write_text("q")
app=SphinxTestApp(srcdir=srcd, buildername="html"); app.build()
st=collections.Counter(); ex={}; c=0; t=time.time()
D=int(sys.argv[1])
FS=F+["```{figure-md} fig\n<img src=\"a.png\">\n\ncap\n```\n","```{figure-md}\nnot an image\n```\n","```{toctree}\nnodoc\nindex\n```\n","```{literalinclude} nope.py\n```\n","```{only} html\n# H in only\n```\n","```{glossary}\nterm\n  def\n```\n","{py:func}`x` {any}`y` {download}`q.txt` {numref}`z` {eq}`l` {term}`t`\n","```{py:function} f(x)\n:module: m\n\ndoc\n```\n","```{math}\n:label: l\nx\n```\n\n```{math}\n:label: l\ny\n```\n","{.glossary}\nTerm\n: d\n","```{versionadded} 1.0\nx\n```\n","```{code-block}\n:caption: *c*\n:name: n\n\nx\n```\n", "```{productionlist}\na: b\n```\n","```{index} x\n```\n","```{tabularcolumns} |l|\n```\n", "```{autosummary}\n```\n","```{highlight} py\n```\n\n```\nx\n```\n"]
for n in range(1,D+1):
    for seq in itertools.product(FS, repeat=n):
        s="\n".join(seq); c+=1
        (srcd/"t.md").write_text(s)
        try:
            app.env.clear_doc("t"); app.builder.read_doc("t", _cache=False)
            dt=app.env.get_doctree("t"); app.env.apply_post_transforms(dt,"t")
        except Exception as e:
            k=sig(e); st[k]+=1
            if k not in ex or len(s)<len(ex[k]): ex[k]=s
            app.env.temp_data.clear(); app.env.ref_context.clear()
print(len(FS), c, time.time()-t)
for k,v in sorted(st.items(), key=lambda x:-x[1]): print(v,k,repr(ex[k])[:200])
app.cleanup(); shutil.rmtree(tmp)
