import io, itertools, time, re, collections, sys
from docutils import nodes
from docutils.utils import new_document
from docutils.frontend import get_default_settings
from myst_parser.parsers.docutils_ import Parser
SET = get_default_settings(Parser)
EXT=["colon_fence","deflist","fieldlist","strikethrough","substitution","dollarmath","attrs_block"]
def render(text, src="/tmp/scratch/w/x.md"):
    ws=io.StringIO()
    s=SET.copy(); s.halt_level=5; s.report_level=2; s.warning_stream=ws; s.myst_enable_extensions=EXT
    doc = new_document(src, s)
    Parser().parse(text, doc)
    return doc, ws.getvalue()
def mask(n):
    n=n.deepcopy()
    for x in n.findall():
        if hasattr(x,"attributes"):
            x.attributes.pop("line",None); x.attributes.pop("source",None)
            if isinstance(x, nodes.system_message): x.attributes.pop("line",None)
    return n
def pf(children):
    out=[]
    for c in children:
        c=c.deepcopy()
        for x in c.findall():
            if isinstance(x,nodes.Element):
                for k in ("line","source"): 
                    if k in x.attributes: del x.attributes[k]
        out.append(c.pformat())
    return "".join(out)
X = ["para *e* [l](u)\n", "- a\n- b\n", "1. a\n2. b\n", "> q\n", "```py\ncode\n```\n", "    ind\n", "|a|b|\n|-|-|\n|1|2|\n", "***\n", "<div>h</div>\n", "$$m$$\n", "(t)=\npara t\n", "x[^f]\n\n[^f]: foot\n", "[r]: http://u\n\n[a][r]\n", "```{tip}\ninner\n```\n", "{abbr}`x (y)`\n", "% c\n", "+++\n", "Term\n: def\n", ":f: v\n", "{nosuchrole}`x`\n", "```{nodir}\n```\n"]
import os; os.makedirs("/tmp/scratch/w",exist_ok=True)
def wrappers(x):
    yield "note```", "```{note}\n"+x+"```\n", lambda d: d[0].children
    yield "note````", "`````{note}\n"+x+"`````\n", lambda d: d[0].children
    yield "note:::", "::::{note}\n"+x+"::::\n", lambda d: d[0].children
    yield "adm-opts", "````{admonition} T\n:class: c\n\n"+x+"````\n", lambda d: d[0].children[1:]
    yield "adm-yaml", "````{admonition} T\n---\nclass: c\n---\n"+x+"````\n", lambda d: d[0].children[1:]
    yield "nest2", "``````{note}\n\n:::::{tip}\n"+x+":::::\n``````\n", lambda d: d[0][0].children
    yield "colon-in-colon", ":::::{note}\n::::{tip}\n"+x+"::::\n:::::\n", lambda d: d[0][0].children
    yield "nest3", "```````{note}\n\n::::::{tip}\n`````{hint}\n"+x+"`````\n::::::\n```````\n", lambda d: d[0][0][0].children
    open("/tmp/scratch/w/inc.md","w").write(x)
    yield "include", "```{include} inc.md\n```\n", lambda d: d.children
    open("/tmp/scratch/w/incfm.md","w").write("---\na: 1\n---\n"+x)
    yield "include-fm", "```{include} incfm.md\n```\n", lambda d: d.children
    ind="".join("      "+l+"\n" if l else "\n" for l in x.split("\n")[:-1])
    yield "subst", "---\nmyst:\n  substitutions:\n    k: |\n"+ind+"---\n{{k}}\n", lambda d: d.children
st=collections.Counter(); shown=collections.Counter(); c=0; t=time.time()
K=int(sys.argv[1])
for k in range(1,K+1):
  for seq in itertools.product(X, repeat=k):
    x="\n".join(seq)
    base,_=render(x); b=pf(base.children)
    for name,text,sel in wrappers(x):
        if x.startswith(":") and name not in ("include","include-fm","subst"): continue
        if name=="subst" and "    ind" in x: continue
        c+=1
        try:
            d,w=render(text); o=pf(sel(d))
        except Exception as e:
            o="EXC "+repr(e)[:80]
        if o!=b:
            st[name]+=1
            if shown[name]<3: shown[name]+=1; print("====",name,repr(x)); import difflib; print("\n".join(list(difflib.unified_diff(b.splitlines(),o.splitlines(),lineterm=""))[:14]))
print(c,time.time()-t,st)
