import io, itertools, time, sys, collections, traceback, signal
from docutils.core import publish_doctree
from myst_parser.parsers.docutils_ import Parser
EXT=["amsmath","attrs_inline","attrs_block","colon_fence","deflist","dollarmath","fieldlist","html_admonition","html_image","replacements","smartquotes","strikethrough","substitution","tasklist"]
def run(text, **ov):
    ws = io.StringIO()
    return publish_doctree(text, source_path="/tmp/scratch/x.md", parser=Parser(), settings_overrides={"warning_stream": ws, "report_level":2, "halt_level":5, "myst_enable_extensions":EXT, "myst_heading_anchors":2, "myst_title_to_header":True, **ov})
def sig(e):
    tb=traceback.extract_tb(e.__traceback__)
    inner=[f for f in tb if "myst_parser" in f.filename]
    last=tb[-1]
    return (type(e).__name__, (inner[-1].name if inner else "?"), last.filename.split("site-packages/")[-1].split("/repo/")[-1]+":"+last.name)
S="a1 \n#*`[]()<>-:{}!|$\\~=^_+"
N=int(sys.argv[1]); part=int(sys.argv[2]); nparts=int(sys.argv[3])
st=collections.Counter(); ex={}; c=0; t=time.time()
for n in range(N+1):
    for i,tup in enumerate(itertools.product(S, repeat=n)):
        if i%nparts!=part: continue
        s="".join(tup); c+=1
        try: run(s)
        except Exception as e:
            k=sig(e); st[k]+=1; ex.setdefault(k,s)
print(c, time.time()-t)
for k,v in st.items(): print(v,k,repr(ex[k]))
