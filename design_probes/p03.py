import io, itertools, time, collections
from docutils import nodes
from docutils.core import publish_doctree
from myst_parser.parsers.docutils_ import Parser
EXT=["colon_fence","deflist","fieldlist","strikethrough","substitution","attrs_inline","attrs_block","html_image","html_admonition","dollarmath"]
def run(text, **ov):
    ws = io.StringIO()
    d = publish_doctree(text, parser=Parser(), settings_overrides={"warning_stream": ws, "report_level":2, "halt_level":5, "myst_enable_extensions":EXT, "myst_heading_anchors":3, **ov})
    return d, ws.getvalue()
def check(doc, w):
    v=[]
    seen=set(); ids=collections.Counter()
    for n in doc.findall():
        if id(n) in seen: v.append("dupnode")
        seen.add(id(n))
        if isinstance(n, nodes.Element):
            for c in n.children:
                if c.parent is not n: v.append("parent:"+n.tagname+">"+c.tagname)
            for i in n.get("ids",[]): ids[i]+=1
            if isinstance(n, nodes.section):
                if not isinstance(n.parent,(nodes.document,nodes.section)): v.append("section-parent:"+n.parent.tagname)
                if not (n.children and isinstance(n[0], nodes.title)): v.append("section-no-title")
            if isinstance(n, nodes.transition) and not isinstance(n.parent,(nodes.document,nodes.section)): v.append("transition-parent:"+n.parent.tagname)
            if isinstance(n, nodes.row):
                tg=n.parent.parent
                if len(n.children)!=tg["cols"]: v.append("row-cols")
            if isinstance(n, nodes.footnote) and not (n.children and isinstance(n[0], nodes.label)): v.append("footnote-no-label")
    for i,c in ids.items():
        if c>1: v.append("dup-id:"+i)
    allids=set(ids)
    for n in doc.findall(lambda n: isinstance(n,(nodes.reference,nodes.footnote_reference,nodes.target))):
        r=n.get("refid")
        if r and r not in allids and ("not found: %r"%r) not in w and ("Unknown target name") not in w: v.append("dangling-refid:"+n.tagname+":"+r)
    for f in doc.findall(nodes.footnote):
        for b in f.get("backrefs",[]):
            if b not in allids: v.append("dangling-backref")
    return v
FR=["para\n","# H\n","## H\n","# H\n","(t)=\n","{#i}\npara q\n","{#i}\npara r\n","[](#t)\n","[](#nope)\n","x[^a]\n","[^a]: A\n","[^a]: B\n","x[^zz]\n","---\n","> ---\n\n> q\n","- l\n","|a|b|\n|-|-|\n|1|\n","|a|\n|-|\n|1|2|\n","```{note}\n:name: n1\nhi\n```\n","```{note}\n:name: n1\nho\n```\n","```{eval-rst}\n.. _rt:\n\nrstp\n```\n","[](#rt)\n","$$x$$ (lbl)\n","$$y$$ (lbl)\n","Term\n: def\n",":f: v\n","{abbr}`x (y)`\n", "{nosuch}`x`\n", "![a](b){#i}\n"]
st=collections.Counter(); ex=collections.Counter(); t=time.time(); c=0
for n in (1,2,3):
    for seq in itertools.product(FR, repeat=n):
        if n==3 and c>40000: break
        text="\n".join(seq); c+=1
        try: d,w=run(text)
        except Exception as e: st["EXC:"+type(e).__name__]+=1; continue
        for x in set(check(d,w)):
            k=x.split(":")[0]+(":"+x.split(":")[1] if x.startswith(("transition","section","parent")) else "")
            st[k]+=1
            if ex[k]<2: ex[k]+=1; print(k, x, repr(text))
print(c, time.time()-t, st)
