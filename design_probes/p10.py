import io, itertools, re, sys, os, collections
from docutils import nodes
from docutils.core import publish_doctree
from myst_parser.parsers.docutils_ import Parser
from myst_parser.cli import print_anchors
POOL=[("a","a"),("A","A"),("a-1","a-1"),("a 1","a 1"),("b","b"),("a!","a!"),("`a`","a"),("*a* b","a b"),("a_b","a_b"),("é","é"),("中","中"),("-a","-a"),("![i](u) a"," a"),("<b>x</b> a","x a")]
def gh(t): return re.sub(r"[^\w一-鿿\- ]","",t.lower().replace(" ","-"))
def model(titles):
    used=set(); out=[]
    for _,plain in titles:
        base=gh(plain); u=base; i=1
        while u in used: u=f"{base}-{i}"; i+=1
        used.add(u); out.append(u)
    return out
def run(text, **ov):
    ws = io.StringIO()
    d = publish_doctree(text, parser=Parser(), settings_overrides={"warning_stream": ws, "report_level":2, "halt_level":5, "doctitle_xform":False, "myst_heading_anchors":2, **ov})
    return d, ws.getvalue()
def cli(text):
    open("/tmp/scratch/h.md","w").write(text)
    print_anchors(["/tmp/scratch/h.md","-l","2","-o","/tmp/scratch/h.out"])
    return re.findall(r'id="([^"]*)"', open("/tmp/scratch/h.out").read())
st=collections.Counter(); shown=collections.Counter()
N=int(sys.argv[1])
for n in range(1,N+1):
    for ts in itertools.product(POOL, repeat=n):
        text="".join(f"# {md}\n\n" for md,_ in ts)
        d,w=run(text)
        impl=[s["slug"] for s in d.findall(nodes.section)]
        m=model(ts); c=cli(text)
        k=("impl=model" if impl==m else "IMPL!=MODEL")+" "+("cli=model" if c==m else "CLI!=MODEL")
        st[k]+=1
        if "!=" in k and shown[k]<5: shown[k]+=1; print(k,[t for t,_ in ts],"impl",impl,"model",m,"cli",c)
print(st)
