import io, os, re, shutil, tempfile, sys, time, itertools, hashlib, pickle, traceback
from pathlib import Path
import sphinx.builders as SB
from sphinx.util import logging as slog
from sphinx.testing.util import SphinxTestApp
from sphinx.util.parallel import ParallelTasks as RealPT
# ---------- deterministic scheduler seam ----------
class DetTasks:
    """Replacement for ParallelTasks: forks each task at its scheduled fork point, runs it to completion,
    and calls result funcs at scheduled merge points. schedule = list of ('F',i)/('M',i)."""
    schedule=None
    def __init__(self, nproc): self.tasks=[]; self.results={}; self.pos=0; self.sched=list(DetTasks.schedule) if DetTasks.schedule else None
    def _run_child(self, func, arg):
        r,w=os.pipe(); pid=os.fork()
        if pid==0:
            os.close(r)
            try:
                collector=slog.LogCollector()
                with collector.collect():
                    ret=func(arg) if arg is not None else func()
                failed=False
            except BaseException as err:
                failed=True; ret=(repr(err), traceback.format_exc())
            slog.convert_serializable(collector.logs)
            data=pickle.dumps((failed, collector.logs, ret))
            with os.fdopen(w,"wb") as f: f.write(data)
            os._exit(0)
        os.close(w)
        with os.fdopen(r,"rb") as f: data=f.read()
        os.waitpid(pid,0)
        return pickle.loads(data)
    def _advance(self, upto_fork=None):
        # perform scheduled events until the fork of task `upto_fork` has been done (or all if None)
        while self.pos < len(self.sched):
            ev,i=self.sched[self.pos]
            if ev=="F":
                if i>=len(self.tasks): return   # task not yet added
                func,arg,rf=self.tasks[i]; self.results[i]=self._run_child(func,arg); self.pos+=1
                if upto_fork is not None and i==upto_fork: return
            else:
                failed,logs,ret=self.results.pop(i)
                if failed: raise RuntimeError(ret)
                logger=slog.getLogger(__name__)
                for log in logs: slog.getLogger("x").handle(log) if False else slog.getLogger(log.name).logger.handle(log)
                self.tasks[i][2](self.tasks[i][1], ret); self.pos+=1
    calls=0
    def add_task(self, task_func, arg=None, result_func=None):
        DetTasks.calls+=1
        self.tasks.append((task_func,arg,result_func or (lambda a,r:None)))
        if self.sched is None: return
        self._advance(upto_fork=len(self.tasks)-1)
    def join(self):
        if self.sched is None:
            self.sched=[("F",i) for i in range(len(self.tasks))]+[("M",i) for i in range(len(self.tasks))]
        self._advance()
    def terminate(self): pass
def schedules(k):
    # all interleavings of F0<F1<..<Fk-1 with Mi after Fi
    def rec(seq, nf, merged):
        if len(seq)==2*k: yield list(seq); return
        if nf<k: yield from rec(seq+[("F",nf)], nf+1, merged)
        for i in range(nf):
            if i not in merged: yield from rec(seq+[("M",i)], nf, merged|{i})
    yield from rec([],0,frozenset())
def ordered_partitions(docs):
    for perm in itertools.permutations(docs):
        n=len(perm)
        for cuts in itertools.product([0,1], repeat=n-1):
            chunks=[]; cur=[perm[0]]
            for d,c in zip(perm[1:],cuts):
                if c: chunks.append(cur); cur=[d]
                else: cur.append(d)
            chunks.append(cur); yield chunks
# ---------- project ----------
def make_project(root):
    src=root/"src"; src.mkdir(parents=True)
    (src/"conf.py").write_text("extensions=['myst_parser']\nmyst_heading_anchors=2\nmyst_enable_extensions=['dollarmath','colon_fence','substitution']\nmyst_substitutions={'k':'V'}\n")
    (src/"index.md").write_text("# Index\n\n```{toctree}\na\nb\nc\n```\n")
    (src/"a.md").write_text("# A\n\n## Sub\n\n[](b.md#sub) [](c.md) x[^f]\n\n[^f]: fa\n\n```{include} inc.txt\n```\n\n$$x$$ (eqa)\n")
    (src/"b.md").write_text("# B\n\n## Sub\n\n## Sub\n\n[](a.md#sub) [](#lblc) {{k}}\n\n```{eval-rst}\n.. include:: inc.txt\n   :heading-offset: 1\n```\n")
    (src/"c.md").write_text("(lblc)=\n# C\n\n[t](b.md#sub-1) {eq}`eqa`\n\n```{include} inc.txt\n```\n\n:::{figure-md} fig\n<img src=\"x.png\" alt=\"a\">\n\ncap\n:::\n")
    (src/"inc.txt").write_text("included para\n")
    return src
def build(src, out, parallel, sched=None, chunks=None):
    r,w=os.pipe(); pid=os.fork()
    if pid==0:
        os.close(r)
        try: res=_build(src,out,parallel,sched,chunks)
        except BaseException as e: res=("EXC",repr(e),traceback.format_exc())
        with os.fdopen(w,"wb") as f: f.write(pickle.dumps(res))
        os._exit(0)
    os.close(w)
    with os.fdopen(r,"rb") as f: data=f.read()
    os.waitpid(pid,0); return pickle.loads(data)
def _build(src, out, parallel, sched=None, chunks=None):
    if out.exists(): shutil.rmtree(out)
    DetTasks.schedule=sched
    if chunks is not None:
        SB.make_chunks=lambda docnames,nproc,maxbatch=10: [list(c) for c in chunks]
        SB.ParallelTasks=DetTasks
    app=SphinxTestApp(srcdir=src, builddir=out, buildername="html", parallel=parallel)
    if chunks is not None:
        app.connect("env-before-read-docs", lambda app,env,docnames: docnames.__setitem__(slice(None), [d for c in chunks for d in c]))
    app.build()
    if chunks is not None and not getattr(build,"_p",0): build._p=1; print("parallel allowed:", app.is_parallel_allowed("read"), app.parallel)
    w=re.sub(r"\x1b\[[0-9;]*m","",app._warning.getvalue())
    files={p.name: hashlib.sha1(re.sub(rb'\?v=[0-9a-f]+|[0-9]+\.[0-9]+s',b'',p.read_bytes())).hexdigest() for p in sorted((out/"html").glob("*.html"))}
    app.cleanup()
    return files, sorted(w.splitlines())
root=Path(tempfile.mkdtemp(prefix="sxp")); src=make_project(root)
t=time.time(); ref=build(src, root/"b0", 1); print("serial", time.time()-t, ref[1])
import sphinx.util.parallel as SP
n=0; bad=0; t=time.time()
docs=["a","b","c","index"]
lim=int(sys.argv[1]) if len(sys.argv)>1 else 40
for chunks in ordered_partitions(docs):
    for sched in schedules(len(chunks)):
        n+=1
        if n>lim: break
        got=build(src, root/"b1", 2, sched, chunks)
        if got!=ref:
            bad+=1
            if bad<4:
                print("DIFF", chunks, sched); print(" files", {k:(v==ref[0].get(k)) for k,v in got[0].items()}); print(" warns", [w for w in got[1] if w not in ref[1]], [w for w in ref[1] if w not in got[1]])
    if n>lim: break
print("add_task calls",DetTasks.calls); print("schedules",n-1 if n>lim else n,"bad",bad,time.time()-t)
shutil.rmtree(root)
