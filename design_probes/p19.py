import itertools, time, collections, sys
from functools import lru_cache
from myst_parser.inventory import match_with_wildcard, _create_regex
def toks(p):
    out=[]; i=0
    while i<len(p):
        if p[i]=="\\" and i+1<len(p) and p[i+1]=="*": out.append(("L","*")); i+=2
        elif p[i]=="*": out.append(("W",)); i+=1
        else: out.append(("L",p[i])); i+=1
    return tuple(out)
def ref(name, p):
    t=toks(p)
    @lru_cache(None)
    def m(i,j):
        if i==len(t): return j==len(name)
        if t[i][0]=="W": return any(m(i+1,k) for k in range(j,len(name)+1))
        return j<len(name) and name[j]==t[i][1] and m(i+1,j+1)
    return m(0,0)
S="ab*\\.+"
P,N=int(sys.argv[1]),int(sys.argv[2])
names=["".join(x) for k in range(N+1) for x in itertools.product(S,repeat=k)]
bad=collections.Counter(); ex={}; c=0; t=time.time()
for k in range(P+1):
    for x in itertools.product(S,repeat=k):
        p="".join(x)
        for n in names:
            c+=1
            if match_with_wildcard(n,p)!=ref(n,p):
                key="ends-bs" if p.endswith("\\") else "other"
                bad[key]+=1; ex.setdefault(key,(p,n))
print(c,time.time()-t,bad,ex,_create_regex.cache_info())
