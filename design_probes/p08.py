import itertools, re, time, collections, sys
from textwrap import dedent
from docutils.parsers.rst.directives.admonitions import Note, Admonition
from docutils.parsers.rst.directives.body import Rubric, CodeBlock
from docutils.parsers.rst.directives.images import Image
from docutils.parsers.rst.directives.misc import Class
from myst_parser.parsers.directives import parse_directive_text, MarkupError
VOC=[":class: x", ":name: n", ":bogus: 1", ":class:", "  :name: m", "---", "-----", "class: x", "bogus: 1", "", "text", "  indented", ":notopt"]
def kv(line):
    m=re.match(r"^\s*:?([A-Za-z]+):\s*(.*)$", line); return (m.group(1), m.group(2)) if m else None
def model(cls, first, content, addl=None):
    L=content.splitlines()
    opts=[]; body=L; off=0; hasblock=False; bad_block=False
    if cls.option_spec:
        if content.startswith("---"):
            hasblock=True
            k=None
            for j in range(1,len(L)):
                if re.match(r"^-{3,}", L[j]): k=j;break
            ol = L[1:k] if k is not None else L[1:]
            body = L[k+1:] if k is not None else []
            off = (k+1) if k is not None else len(L)
            block = dedent("\n".join(ol))
            # expected pairs by construction: each line 'key: value' ; lines like ':class: x' in yaml block are keys starting with ':'... ambiguous -> mark unknown
            opts=("YAML", block)
        elif L and L[0].lstrip().startswith(":") or (content.lstrip().startswith(":") ):
            hasblock=True
            k=0
            while k<len(L) and L[k].lstrip().startswith(":"): k+=1
            opts=("COLON", "\n".join(l.lstrip()[1:] for l in L[:k])); body=L[k:]; off=k
    # args
    if not (cls.required_arguments or cls.optional_arguments):
        if first.strip():
            body=[first]+body; off=None
        args=[]
    else:
        a=first.split(); r,o=cls.required_arguments,cls.optional_arguments
        if len(a)<r: return "ERR"
        if len(a)>r+o:
            if cls.final_argument_whitespace: a=first.split(None,r+o-1)
            else: return "ERR"
        args=a
    if off is not None and body and not body[0].strip():
        body=body[1:]; off+=1
    while body and not body[-1].strip() and False: body.pop()
    return args, body, off
def strip_trailing(b):
    b=list(b)
    while b and not b[-1].strip(): b.pop()
    return b
stats=collections.Counter(); shown=collections.Counter()
K=int(sys.argv[1])
for cls in (Note, Admonition, Rubric, CodeBlock, Image, Class):
  for first in ("", "x", "x y", "x y z"):
    for k in range(0,K+1):
      for lines in itertools.product(VOC, repeat=k):
        for nl in ("", "\n"):
            content="\n".join(lines)+(nl if lines else "")
            m=model(cls, first, content)
            try:
                r=parse_directive_text(cls, first, content, line=0); o=(r.arguments, r.body, r.body_offset)
            except MarkupError: o="ERR"
            except Exception as e: o="EXC "+type(e).__name__
            if m=="ERR" or o=="ERR" or isinstance(o,str):
                key="err-agree" if m==o else "ERR-MISMATCH"
            else:
                pb = strip_trailing(m[1])==strip_trailing(o[1]); po = (m[2] is None) or m[2]==o[2]; pa=m[0]==o[0]
                key = "ok" if (pb and po and pa) else ("BODY" if not pb else "OFFSET" if not po else "ARGS")
            stats[key]+=1
            if key not in ("ok","err-agree") and shown[key]<6:
                shown[key]+=1; print(key, cls.__name__, repr(first), repr(content), "\n   M", m, "\n   O", o)
print(stats)
