import tempfile, shutil, re
from pathlib import Path
from sphinx.testing.util import SphinxTestApp
tmp=Path(tempfile.mkdtemp(prefix="sx")); src=tmp/"src"; src.mkdir()
(src/"conf.py").write_text("extensions=['myst_parser']\nmyst_enable_extensions=['attrs_block']\n")
(src/"index.md").write_text("# Doc\n\n> {#aa}\n> ## Head\n\n[](#aa)\n\n{#bb}\n## Top head\n\n[](#bb)\n")
app=SphinxTestApp(srcdir=src, buildername="html"); app.build()
h=(tmp/"src"/"_build"/"html"/"index.html").read_text()
print(re.findall(r"<p><a class=\"reference internal\".*?</p>", h, re.S))
print(re.sub(r"\x1b\[[0-9;]*m","",app._warning.getvalue()))
app.cleanup(); shutil.rmtree(tmp)
