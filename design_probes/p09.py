import io, itertools, re, collections, sys, time
from docutils import nodes
from docutils.core import publish_doctree
from myst_parser.parsers.docutils_ import Parser
EXT=["colon_fence","attrs_block","attrs_inline"]
def run(text):
    ws = io.StringIO()
    d = publish_doctree(text, parser=Parser(), settings_overrides={"warning_stream": ws, "report_level":2, "halt_level":5, "myst_enable_extensions":EXT, "myst_heading_anchors":3, "doctitle_xform":False})
    return d, ws.getvalue()
# target placements: each returns (lines, info) where info = (name, marker, kind, title or None)
def T_target_para(name,i): return [f"({name})=", f"TM{i} para"], dict(name=name, marker=f"TM{i}", title=None, kind="tgt-para", explicit=True)
def T_target_head(name,i): return [f"({name})=", f"## TM{i} Head"], dict(name=name, marker=f"TM{i}", title=f"TM{i} Head", kind="tgt-head", explicit=True)
def T_attr_para(name,i): return [f"{{#{name}}}", f"TM{i} para"], dict(name=name, marker=f"TM{i}", title=None, kind="attr-para", explicit=True)
def T_attr_head(name,i): return [f"{{#{name}}}", f"## TM{i} Head"], dict(name=name, marker=f"TM{i}", title=f"TM{i} Head", kind="attr-head", explicit=True)
def T_dir_name(name,i): return [f"```{{note}}", f":name: {name}", f"TM{i} body", "```"], dict(name=name, marker=f"TM{i}", title=None, kind="dir-name", explicit=True)
def T_slug(name,i): return [f"## {name}"], dict(name=name.lower(), marker=name, title=name, kind="slug", explicit=False)
TK=[T_target_para,T_target_head,T_attr_para,T_attr_head,T_dir_name,T_slug]
NAMES=["aa","bb"]
def L(form,name,j):
    m=f"LM{j}"
    return {"text":f"[{m} *x*](#{name})","empty":f"[](#{name})","auto":f"<project:#{name}>"}[form], m
CTX={"top":lambda ls:ls,"quote":lambda ls:["> "+l for l in ls],"list":lambda ls:[("- " if i==0 else "  ")+l for i,l in enumerate(ls)],"note":lambda ls:["````{note}"]+ls+["````"]}
st=collections.Counter(); ex={}; c=0; t=time.time()
for tks in itertools.chain(itertools.product(TK,repeat=1), itertools.product(TK,repeat=2)):
  for tctx in CTX:
    for lforms in itertools.product(["text","empty","auto"],repeat=1):
      for lname in ["aa","bb","zz"]:
        for lctx in CTX:
          for order in ("after","before"):
            lines=[]; infos=[]
            tl=[]
            for i,(tk,name) in enumerate(zip(tks,NAMES)):
                if tk is T_slug and tctx!="top" : pass
                ls,info=tk(name,i); tl+= CTX[tctx](ls)+[""]; infos.append(info)
            ll=[]; links=[]
            for j,f in enumerate(lforms):
                txt,m=L(f,lname,j); ll+= CTX[lctx]([f"LP{j} "+txt])+[""]; links.append((m,f,lname,j))
            body = (tl+ll) if order=="after" else (ll+tl)
            text="\n".join(["# Doc",""]+body)+"\n"
            c+=1
            d,w=run(text)
            # model
            expl={i["name"]:i for i in infos if i["explicit"]}
            slug={i["name"]:i for i in infos if not i["explicit"]}
            for (m,f,name,j) in links:
                para=[p for p in d.findall(nodes.paragraph) if p.astext().startswith(f"LP{j}")]
                refs=list(para[0].findall(nodes.reference)) if para else []
                tgt=expl.get(name) or slug.get(name)
                if len(refs)!=1: key="NREFS=%d"%len(refs)
                elif tgt is None:
                    nw=len(re.findall(r"not found: '%s' \[myst.xref_missing\]"%name, w))
                    key="ok-missing" if nw==1 else "MISSING-WARN=%d"%nw
                else:
                    node=d.ids.get(refs[0].get("refid"))
                    hit = node is not None and tgt["marker"] in node.astext()
                    if not hit: key="WRONG-TARGET"
                    else:
                        txt=refs[0].astext()
                        if f=="text": key="ok" if txt==f"{m} x" else "TEXT"
                        else:
                            want=tgt["title"] or "#"+name
                            key="ok" if txt==want else "FILL:"+tgt["kind"]
                    if re.search(r"xref_missing", w): key+="+SPURIOUS-WARN"
                st[key]+=1
                if not key.startswith("ok"): ex.setdefault((key,tuple(i["kind"] for i in infos),tctx,f,lctx,order),(text, w[:200], [ (r.get("refid"), r.astext()) for r in refs]))
print(c,time.time()-t,st)
for k,v in list(ex.items())[:12]: print(k,v)
