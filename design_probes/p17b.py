import io, itertools, re, collections, json
from docutils import nodes
from docutils.core import publish_doctree
from myst_parser.parsers.docutils_ import Parser
from myst_parser.parsers.options import options_to_items, TokenizeError
EXT=["html_image","html_admonition","colon_fence"]
def run(text):
    ws = io.StringIO()
    d = publish_doctree(text, parser=Parser(), settings_overrides={"warning_stream": ws, "report_level":2, "halt_level":5, "myst_enable_extensions":EXT, "doctitle_xform":False})
    return d, ws.getvalue()
def pf(d):
    d=d.deepcopy()
    for n in d.findall():
        if isinstance(n,nodes.Element):
            for k in ("line","source"): n.attributes.pop(k,None)
    return d.pformat()
VALS=["x","a b","a: b","#x","a #b","'q'","|",">","- x","[x]","{x}","*","&amp;","","10px","50%","bad len","a\\b","a,b","  sp  ","é","left","a:b","x: ","!t","@x","%p","`c`","?q","x'y",": lead"]
def survives(v):
    try: return options_to_items(f"k: {v}")[0]==[("k",v)]
    except TokenizeError: return False
def yq(v): return json.dumps(v, ensure_ascii=False)
st=collections.Counter(); ex={}
for attr in ["alt","class","width","height","align","name","title","id","data-x"]:
    for v in VALS:
        html=f'<img src="u.png" {attr}="{v}">\n'
        opt = f":{attr}: {yq(v)}\n" if attr in {"class","alt","height","width","align","name"} and v!="" else (f":{attr}:\n" if attr in {"class","alt","height","width","align","name"} else "")
        dirv=f"```{{image}} u.png\n{opt}```\n"
        a,wa=run(html); b,wb=run(dirv)
        eq = pf(a)==pf(b)
        sv = survives(v)
        key=("EQ" if eq else "NE")+("-surv" if sv else "-nosurv")
        st[key]+=1
        if key in ("NE-surv","EQ-nosurv"): ex.setdefault((key,attr,v),(pf(a)[-200:],wa[:150],pf(b)[-200:],wb[:150]))
print(st)
for k,v in list(ex.items())[:14]: print(k,v)
