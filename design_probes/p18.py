import io, zlib, itertools, collections
from myst_parser import inventory as mi
from sphinx.util.inventory import InventoryFile
exec(open("t11.py").read().split("pool = [")[0].split("def sphinx_load")[0])
def sphinx_load(b):
    inv = InventoryFile.loads(b, uri="")
    return {t:{n:(i.project_name,i.project_version,i.uri,i.display_name) for n,i in ns.items()} for t,ns in inv.data.items()}
v1pool=["a mod p.html","a func q.html","b class r.html","a b func s.html","bad","x y","", "a mod z.html", "m mod u.html extra"]
st=collections.Counter(); ex={}
for k in range(0,4):
  for es in itertools.product(v1pool, repeat=k):
    for proj,ver in (("P","1"),("","")):
        b=ser_v1(list(es),proj,ver)
        try: s=sphinx_load(b); se=None
        except Exception as e: s=None; se=type(e).__name__
        try: m=myst_as_sphinx(mi.load(io.BytesIO(b))); me=None
        except Exception as e: m=None; me=type(e).__name__
        key="agree" if (s==m and se==me) else ("both-err" if s is None and m is None else "myst-err-only" if m is None else "sphinx-err-only" if s is None else "DIFF")
        st[key]+=1
        if key not in("agree","both-err"): ex.setdefault(key,(es,s,se,m,me))
print("v1",st); 
for k,v in ex.items(): print(k,v)
# v2 mutations
pool2=["a py:function 1 p.html#$ -","a  py:function   1  p.html#$   -","a py:function x p.html -","a py:function 1","a py:function 1 p.html","a py:function 1  Disp","a py:function -1 p.html#$ D d","a: py:x:y 1 l -","é std:label 1 l.html#é Ünï","a b c py:function 1 l -"," lead py:function 1 l -","a py:function 1 l - "]
st=collections.Counter(); ex={}
for k in range(0,3):
  for es in itertools.product(pool2, repeat=k):
    for proj,ver in (("P","1"),("My Proj","1.0 beta"),("","")):
        b=ser_v2(list(es),proj,ver)
        try: s=sphinx_load(b); se=None
        except Exception as e: s=None; se=type(e).__name__
        try: m=myst_as_sphinx(mi.load(io.BytesIO(b))); me=None
        except Exception as e: m=None; me=type(e).__name__
        key="agree" if (s==m and se==me) else ("both-err" if s is None and m is None else "myst-err-only" if m is None else "sphinx-err-only" if s is None else "DIFF")
        st[key]+=1
        if key not in("agree","both-err"): ex.setdefault((key,),(es,proj,s,se,m,me))
print("v2mut",st)
for k,v in ex.items(): print(k,v)
# header variants
for hdr in [b"# Sphinx inventory version 2\r\n# Project: P\r\n# Version: 1\r\n# The remainder of this file is compressed using zlib.\r\n", b"# Sphinx inventory version 2 \n# Project: P\n# Version: 1\n# zlib\n", b"# Sphinx inventory version 3\n# Project: P\n# Version: 1\n# zlib\n", b"# Sphinx inventory version 2\n# Project: P\n# Version: 1\n# not compressed\n", b"", b"# Sphinx inventory version 2\n# Project: P\n"]:
    b=hdr+zlib.compress(b"a py:function 1 p.html#$ -\n")
    try: s=sphinx_load(b)
    except Exception as e: s="ERR "+repr(e)[:60]
    try: m=myst_as_sphinx(mi.load(io.BytesIO(b)))
    except Exception as e: m="ERR "+repr(e)[:60]
    print(hdr[:40], "| S:", s, "| M:", m)
