import itertools, time, collections, sys
from myst_parser.parsers.parse_html import tokenize_html, Data
alpha = sys.argv[2] if len(sys.argv)>2 else '<>/a ="&;#!-?'
n=int(sys.argv[1])
t=time.time(); stats=collections.Counter(); bad=[]
def consistent(root):
    seen=set()
    def rec(e):
        for c in e:
            if id(c) in seen: return False
            seen.add(id(c))
            if c.parent is not e: return False
            if not rec(c): return False
        return True
    ok = rec(root)
    w = list(root.walk())
    return ok and len(w)==len(seen) and len(set(map(id,w)))==len(w)
for L in range(n+1):
    for tup in itertools.product(alpha, repeat=L):
        s="".join(tup)
        try:
            r = tokenize_html(s)
            out = str(r)
        except Exception as e:
            stats["EXC:"+type(e).__name__]+=1; bad.append((s,repr(e))); continue
        if not consistent(r): stats["INCONS"]+=1; bad.append((s,"incons"))
        stats["rt" if out==s else "nort"]+=1
print(time.time()-t, stats); print(bad[:20])
