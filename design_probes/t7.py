import itertools, yaml, time, collections, sys
from myst_parser.parsers.options import options_to_items, TokenizeError
def yaml_pairs(text):
    try:
        evs = list(yaml.parse(text, Loader=yaml.SafeLoader))
    except yaml.YAMLError as e:
        return None, "yamlerr"
    # expect StreamStart DocStart MapStart (Scalar Scalar)* MapEnd DocEnd StreamEnd
    if len(evs) < 6: return None, "short"
    if not isinstance(evs[1], yaml.DocumentStartEvent) or evs[1].explicit: return None,"docstart"
    if not isinstance(evs[2], yaml.MappingStartEvent) or evs[2].flow_style or evs[2].anchor or (evs[2].tag): return None,"notmap"
    body = evs[3:-3]
    if not isinstance(evs[-3], yaml.MappingEndEvent): return None,"nomapend"
    if evs[-2].explicit: return None, "docend"
    if len(body)%2: return None,"odd"
    out=[]
    for i,e in enumerate(body):
        if not isinstance(e, yaml.ScalarEvent) or e.anchor or e.tag: return None,"nonscalar"
        if i%2==0 and e.start_mark.column!=0: return None,"keycol"
        if i%2==0 and e.style in ("|",">"): return None, "blockkey"
    for k,v in zip(body[::2], body[1::2]):
        out.append((k.value, v.value))
    return out, "ok"
alpha = sys.argv[2] if len(sys.argv)>2 else "a: \n#'\"|>-"
n = int(sys.argv[1])
t=time.time()
stats=collections.Counter(); dis=[]
for L in range(0,n+1):
    for tup in itertools.product(alpha, repeat=L):
        s="".join(tup)
        try:
            m = options_to_items(s)[0]; merr=None
        except TokenizeError as e:
            m=None; merr=e
        except Exception as e:
            stats["CRASH"]+=1; dis.append((s,"crash",repr(e))); continue
        y,why = yaml_pairs(s)
        if y is None:
            stats["yaml-out:"+why]+=1; continue
        if m is None:
            stats["myst-err-yaml-ok"]+=1; dis.append((s,"mysterr",y, merr.problem)); continue
        if m!=y:
            stats["DISAGREE"]+=1; dis.append((s,m,y))
        else: stats["agree"]+=1
print(time.time()-t, stats)
for d in dis[:60]: print(d)
print(len(dis))
