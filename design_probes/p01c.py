import io, itertools, time, sys, collections, traceback, os
from docutils.core import publish_doctree
from myst_parser.parsers.docutils_ import Parser
src=open("p01f.py").read()
F=eval(src[src.index("F=[")+2: src.index("\nprint(len(F))")])
def sig(e):
    tb=traceback.extract_tb(e.__traceback__)
    inner=[f for f in tb if "myst_parser" in f.filename]
    last=tb[-1]
    return (type(e).__name__, (inner[-1].name if inner else "?"), last.filename.split("site-packages/")[-1].split("/repo/")[-1]+":"+last.name)
EXT=["amsmath","attrs_image","attrs_inline","attrs_block","colon_fence","deflist","dollarmath","fieldlist","html_admonition","html_image","replacements","smartquotes","strikethrough","substitution","tasklist"]
def run(text, **ov):
    ws = io.StringIO()
    return publish_doctree(text, source_path="/tmp/scratch/w1/x.md", parser=Parser(), settings_overrides={"warning_stream": ws, "report_level":2, "halt_level":5, "myst_inventories":{"k":["http://x","/tmp/scratch/w1/bad.inv"]}, "myst_substitutions":{"a":"{{b}}","b":"{{a}}","c":"{{ 1/0 }}","e":"# H"}, **ov})
part=int(sys.argv[1]); nparts=int(sys.argv[2])
subsets=[frozenset(c) for k in (0,1,2,len(EXT)-1,len(EXT)) for c in itertools.combinations(EXT,k)]
modes=[{}, {"myst_commonmark_only":True}, {"myst_all_links_external":True}, {"myst_heading_anchors":3,"myst_title_to_header":True}, {"myst_footnote_sort":False,"myst_footnote_transition":False}, {"myst_links_external_new_tab":True,"myst_url_schemes":{"http":{"url":"{{scheme}}://x/{{path}}","title":"{{uri}}","classes":["c"]},"x":None}}, {"myst_dmath_double_inline":True,"myst_dmath_allow_labels":False,"myst_dmath_allow_space":False,"myst_dmath_allow_digits":False,"myst_enable_checkboxes":True}, {"myst_highlight_code_blocks":False,"myst_number_code_blocks":["py"],"myst_fence_as_directive":["py","mermaid","note"]},{"myst_disable_syntax":["emphasis","link","table","list"]},{"myst_sub_delimiters":["|","|"]} ]
known={('AssertionError','?'),('OverflowError','_scan_flow_scalar_non_spaces'),('AttributeError','parse_directive_arguments'),('AttributeError','classes'),('KeyError','copy_attributes'),('ValueError','copy_attributes'),('ComposerError','read_topmatter'),('ConstructorError','read_topmatter'),('TypeError','render_link')}
st=collections.Counter(); ex={}; c=0; t=time.time()
for i,(sub,mode) in enumerate(itertools.product(subsets,modes)):
    if i%nparts!=part: continue
    for f in F:
        c+=1
        try: run(f, myst_enable_extensions=sorted(sub), **mode)
        except Exception as e:
            k=sig(e)
            if (k[0],k[1]) in known: st["known"]+=1
            else:
                st[k]+=1; ex.setdefault(k,(sorted(sub) if len(sub)<4 else "ALL-"+str(sorted(set(EXT)-sub)),mode,f))
print(c,time.time()-t)
for k,v in st.items(): print(v,k,repr(ex.get(k))[:300])
