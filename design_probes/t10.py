import itertools, time, collections, sys
from myst_parser.parsers.parse_html import tokenize_html
ATTRS = ['', ' k="v"', ' class="c d"', ' k="" j="x y"']
LEAVES = ['x', ' ', '<!--c-->', '<!---->', '<!DOCTYPE html>', '<?p q?>', '&#38;', '&#x26;', '&amp;', '<br>', '<img k="v">', '<a/>', '<b k="v"/>', '<br/>']
TAGS = ['a','p','div']
def trees(n, depth):
    """all forests with exactly n nodes, depth<=depth"""
    if n==0: yield ""; return
    # first node: leaf or tag with k child nodes, then rest
    for leaf in LEAVES:
        for rest in trees(n-1, depth):
            # avoid adjacent data merging: 'x' followed by 'x' or ' ' merges into one Data -> still round-trips
            yield leaf+rest
    if depth>0:
        for t in TAGS:
            for at in ATTRS:
                for k in range(0,n):
                    for inner in trees(k, depth-1):
                        for rest in trees(n-1-k, depth):
                            yield f"<{t}{at}>{inner}</{t}>{rest}"
n=int(sys.argv[1]); c=0; bad=[]; t=time.time()
for s in trees(n, 3):
    c+=1
    if str(tokenize_html(s))!=s: bad.append(s)
print(c, time.time()-t, len(bad), bad[:15])
