import dataclasses as dc, io, contextlib
from docutils.frontend import OptionParser
from myst_parser.parsers.docutils_ import Parser, create_myst_config
from myst_parser.config.main import MdParserConfig
def from_cli(args):
    op=OptionParser(components=(Parser,), read_config_files=False)
    err=io.StringIO()
    try:
        with contextlib.redirect_stderr(err):
            settings=op.parse_args(args)
    except SystemExit as e: return ("EXIT", err.getvalue().strip().splitlines()[-1][:100])
    except Exception as e: return ("EXC", repr(e)[:100])
    try: return ("OK", create_myst_config(settings))
    except Exception as e: return ("CFGERR", repr(e)[:100])
CASES=[("commonmark_only",["yes","no","true","0","maybe",""],None),("heading_anchors",["3","0","7","8","x","-1"],None),("enable_extensions",["dollarmath,amsmath","dollarmath, amsmath","bogus","", "dollarmath,"],None),("disable_syntax",["emphasis,link",""],None),("url_schemes",["http,ftp","{http: null, x: 'u{{path}}'}","{http: {url: u, classes: [c]}}","[http]","1","{"],None),("fence_as_directive",["a,b"],None),("number_code_blocks",["py,c"],None),("html_meta",["{a: b}","a=b","[1]","{a: 1}"],None),("substitutions",["{a: 1}","x"],None),("words_per_minute",["100","x","1.5"],None),("heading_slug_func",["myst_parser.config.main._test_slug_func","no.such"],None),("suppress_warnings",["myst.header,myst"],None),("inventories",["{k: [u, null]}","{k: u}"],None),("footnote_sort",["no"],None),("highlight_code_blocks",["0"],None)]
for name,vals,_ in CASES:
    for v in vals:
        r=from_cli([f"--myst-{name.replace('_','-')}={v}"])
        out = repr(getattr(r[1],name))[:80] if r[0]=="OK" else r
        print(f"{name:22s} {v!r:45s} -> {out}")
# fields omitted
print([f.name for f in dc.fields(MdParserConfig) if "docutils" in f.metadata.get("omit",[])])
