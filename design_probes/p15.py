import io, os, sys, itertools, pickle, hashlib
from docutils.core import publish_doctree
from myst_parser.parsers.docutils_ import Parser
import zlib
open("/tmp/scratch/inc.md","w").write("# Inc\n\npara [^f]\n\n[^f]: foot\n")
open("/tmp/scratch/inc.rst","w").write("para\n")
ents="\n".join(f"n{i} py:function 1 p.html#$ -" for i in range(300))+"\nabc std:label -1 i.html#abc Title\nABC std:label -1 i.html#ABC2 Other\n"
open("/tmp/scratch/o.inv","wb").write(b"# Sphinx inventory version 2\n# Project: P\n# Version: 1\n# The remainder of this file is compressed using zlib.\n"+zlib.compress(ents.encode()))
EXT=["colon_fence","deflist","fieldlist","strikethrough","substitution","attrs_inline","attrs_block","html_image","html_admonition","dollarmath"]
def run(text, **ov):
    ws = io.StringIO()
    d = publish_doctree(text, source_path="/tmp/scratch/x.md", parser=Parser(), settings_overrides={"warning_stream": ws, "report_level":2, "halt_level":5, "myst_enable_extensions":EXT, "myst_inventories":{"k":["http://x","/tmp/scratch/o.inv"]}, "myst_heading_anchors":2, **ov})
    return d.pformat()+"\n"+ws.getvalue()
OPS = {
 "include": ("```{include} inc.md\n```\n", {}),
 "rst-include-opt": ("```{eval-rst}\n.. include:: inc.rst\n   :heading-offset: 1\n```\n", {}),
 "rst-default-role": ("```{eval-rst}\n.. default-role:: math\n\n`x`\n```\n\n{math}`y`\n", {}),
 "rst-plain-role": ("```{eval-rst}\n`x`\n```\n", {}),
 "role-def": ("```{role} myr(emphasis)\n```\n\n{myr}`x`\n", {}),
 "role-use": ("{myr}`x`\n", {}),
 "inv-many": ("".join(f"[](inv:#n{i}*)\n" for i in range(0,300,1))+"\n[](inv:#abc) [](inv:#ABC) [](inv:#a*)\n", {}),
 "inv-few": ("[](inv:#abc) [](inv:#ABC) [](inv:#AB*)\n", {}),
 "subst": ("---\nmyst:\n  substitutions:\n    a: '{{b}}'\n    b: '{{a}}'\n    c: '{{ 1/0 }}'\n    d: ok\n---\n{{a}} {{c}} {{d}}\n", {}),
 "subst2": ("---\nmyst:\n  substitutions:\n    a: A\n---\n{{a}} {{d}}\n", {}),
 "headings": ("# a\n\n## a\n\n[](#a-1)\n\n[^x]: y\n", {}),
 "fm-override": ("---\nmyst:\n  enable_extensions: [dollarmath]\n  heading_anchors: 0\n  html_meta: {k: v}\n---\n# a\n\n$x$ ~~s~~\n", {}),
 "plain-after": ("# a\n\n$x$ ~~s~~ <img src='a'>\n", {}),
}
def child(hist):
    r,w=os.pipe()
    pid=os.fork()
    if pid==0:
        os.close(r)
        out=[]
        for op in hist:
            try: out.append(run(*[OPS[op][0]], **OPS[op][1]))
            except BaseException as e: out.append("EXC "+repr(e))
        os.write(w, pickle.dumps(out)); os._exit(0)
    os.close(w); data=b""
    while True:
        b=os.read(r,1<<20)
        if not b: break
        data+=b
    os.waitpid(pid,0); return pickle.loads(data)
base={op:child([op])[0] for op in OPS}
bad=set(); n=0
for k in (2,3) if len(sys.argv)>1 else (2,):
  for h in itertools.product(OPS, repeat=k):
    out=child(h); n+=1
    for i,(op,o) in enumerate(zip(h,out)):
        if o!=base[op]: bad.add((h[:i],op)) if all((h[:j],op) not in bad for j in range(i)) else None
print(n, len(bad))
import collections
c=collections.Counter((h[-1] if h else None, op) for h,op in bad if len(h)==1)
for k,v in sorted(c.items(), key=str): print(k,v)
