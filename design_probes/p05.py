import io, itertools, time, re, collections
from docutils import nodes
from docutils.utils import new_document
from docutils.frontend import get_default_settings
from myst_parser.config.main import MdParserConfig
from myst_parser.parsers.mdit import create_md_parser
from myst_parser.parsers.docutils_ import Parser
from myst_parser.mdit_to_docutils.base import DocutilsRenderer
SET = get_default_settings(Parser)
def render(text, cfg):
    ws=io.StringIO()
    doc = new_document("<s>", SET.copy()); doc.settings.halt_level=5; doc.settings.report_level=2; doc.settings.warning_stream=ws
    doc.reporter.stream = ws
    md = create_md_parser(cfg, DocutilsRenderer); md.options["document"]=doc
    md.render(text)
    return doc, ws.getvalue(), md.renderer
cfg = MdParserConfig()
def model(levels):
    open_=[(0,"DOC")]; parents={}; warns=0
    for i,L in enumerate(levels):
        while open_[-1][0]>=L: open_.pop()
        pl,pn = open_[-1]
        if L>pl+1: warns+=1
        parents[f"T{i}"]=pn; open_.append((L,f"T{i}"))
    return parents, warns, tuple(sorted(l for l,_ in open_))
def observe(doc):
    par={}
    for s in doc.findall(nodes.section):
        t=s[0].astext(); p=s.parent
        par[t]= "DOC" if isinstance(p,nodes.document) else p[0].astext()
    return par
bad=0;c=0;t=time.time(); states=set()
for n in range(1,6):
    for lv in itertools.product(range(1,7), repeat=n):
        text="".join("#"*L+f" T{i}\n\n" for i,L in enumerate(lv))
        doc,w,r = render(text,cfg); c+=1
        mp,mw,mo = model(lv)
        op=observe(doc); ow=w.count("[myst.header]"); oo=tuple(sorted(r._level_to_section))
        states.add(oo)
        if mp!=op or mw!=ow or mo!=oo:
            bad+=1
            if bad<5: print(lv, mp, op, mw, ow, mo, oo)
print(c,bad,time.time()-t,len(states))
