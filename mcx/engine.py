"""mcx — a small bounded explicit-state explorer that runs the REAL code (DESIGN.md §2).

A *system* enumerates a finite space of cases (histories over a small alphabet, in
shortest-first order) and executes every one of them on the implementation; an oracle is
evaluated on every execution.  The engine cuts the enumeration into strided chunks, hands them to
forked workers, merges counts/violations deterministically and never samples.
"""

from __future__ import annotations

import hashlib
import json
import os
import pickle
import signal
import struct
import sys
import time
import traceback
from collections import Counter
from dataclasses import dataclass, field
from typing import Any, Iterable

CHUNK = 64


class DeadlineExpired(BaseException):
    """Raised inside a worker when one execution exceeds the system's deadline."""


def _on_alarm(signum, frame):
    raise DeadlineExpired()


def h64(obj: Any) -> int:
    if not isinstance(obj, (bytes, bytearray)):
        obj = repr(obj).encode("utf-8", "surrogatepass")
    return struct.unpack("<Q", hashlib.blake2b(obj, digest_size=8).digest())[0]


def violation(clause: str, signature: dict, message: str, **detail) -> dict:
    return {
        "clause": clause,
        "signature": signature,
        "message": message,
        "detail": detail,
    }


@dataclass
class Obs:
    """What one execution of the real code yielded."""

    digest: Any = None  # hashable/reprable summary of the observation (distinct_outcomes)
    nontrivial: bool = True
    canon: Any = None  # canonical implementation state, None = the case itself
    violations: list = field(default_factory=list)
    transitions: int = 1  # (state, symbol) steps executed on the implementation
    stats: dict = field(default_factory=dict)  # free counters, summed into the evidence
    validated: int = 1  # executions compared against the reference model / oracle
    canon_set: Any = None  # optional: several canonical states visited by one case (already hashed ints)


class System:
    """Base class; see DESIGN.md §2 'System interface'."""

    name = "system"
    description = ""
    deadline_s = 60.0
    time_budget_s = None  # optional wall-clock cap; hitting it makes the run non-exhaustive
    distinct_by_construction = True  # the enumeration never repeats a case
    fork_per_case = False
    jobs = None  # override worker count
    chunk = 64  # consecutive cases handed to one worker

    def __init__(self, tier: str):
        self.tier = tier

    # -- to be provided by a property module -------------------------------------------------
    def prepare(self, ctx) -> None:  # parent process, before workers are forked
        pass

    def cases(self) -> Iterable[Any]:  # JSON-serialisable cases, shortest first
        raise NotImplementedError

    def run(self, case) -> Obs:  # executes the real code on one case
        raise NotImplementedError

    def bounds(self) -> dict:
        return {}

    def alphabet(self) -> Any:
        return None

    def rule(self) -> str:
        return self.description

    def describe(self, case) -> Any:  # how a case is written into coverage.samples
        return case

    def worker_init(self, wid: int) -> None:  # in each worker after fork
        pass


class FixpointSystem(System):
    """BFS over canonical implementation states until no new state appears.

    ``symbols()`` is the alphabet, ``run(prefix)`` executes the whole history on fresh objects and
    returns an Obs whose ``canon`` is the canonical state read from the real objects.  A history is
    expanded only if its canonical state is new; every executed history is checked.
    """

    max_states = 10_000

    def symbols(self) -> list:
        raise NotImplementedError

    def cases(self):  # not used; the engine drives the BFS
        return iter(())


@dataclass
class SystemResult:
    name: str
    description: str
    evaluations: int = 0
    nontrivial: int = 0
    distinct_nontrivial: int = 0
    distinct_outcomes: int = 0
    states: int = 0
    transitions: int = 0
    validated: int = 0
    violations: dict = field(default_factory=dict)  # sigkey -> {"count", "examples"}
    samples: list = field(default_factory=list)
    stats: Counter = field(default_factory=Counter)
    exhaustive: bool = True
    caps_hit: list = field(default_factory=list)
    wall_s: float = 0.0
    bounds: dict = field(default_factory=dict)
    alphabet: Any = None
    rule: str = ""
    errors: list = field(default_factory=list)
    max_exec_s: float = 0.0
    fixpoint: bool = False
    max_depth: int = 0


def sigkey(sig: dict) -> str:
    return json.dumps(sig, sort_keys=True, ensure_ascii=False, default=str)


class _Acc:
    """Per-worker accumulator."""

    def __init__(self, seed: int):
        self.seed = seed
        self.n = 0
        self.nontrivial = 0
        self.case_hashes: set[int] = set()
        self.outcomes: set[int] = set()
        self.canon: set[int] = set()
        self.transitions = 0
        self.validated = 0
        self.viol: dict[str, dict] = {}
        self.samples: list = []  # (rank, idx, described)
        self.stats: Counter = Counter()
        self.max_exec = 0.0
        self.errors: list = []
        self.capped_at = None
        self.last_idx = -1

    def add(self, system: System, idx: int, case, obs: Obs, dt: float):
        self.n += 1
        self.last_idx = idx
        self.max_exec = max(self.max_exec, dt)
        self.transitions += obs.transitions
        self.validated += obs.validated
        for k, v in obs.stats.items():
            self.stats[k] += v
        self.outcomes.add(h64(obs.digest))
        if obs.canon_set is not None:
            self.canon.update(obs.canon_set)
        else:
            self.canon.add(h64(case if obs.canon is None else obs.canon))
        if obs.nontrivial:
            self.nontrivial += 1
            if not system.distinct_by_construction:
                self.case_hashes.add(h64(case))
            rank = h64((idx, self.seed))
            if len(self.samples) < 4 or rank < self.samples[-1][0]:
                self.samples.append((rank, idx, system.describe(case)))
                self.samples.sort(key=lambda t: t[0])
                del self.samples[4:]
        for v in obs.violations:
            key = sigkey(v["signature"])
            slot = self.viol.setdefault(key, {"count": 0, "examples": []})
            slot["count"] += 1
            if len(slot["examples"]) < 2:
                slot["examples"].append({"idx": idx, "case": case, **v})

    def pack(self):
        return pickle.dumps(self.__dict__, protocol=pickle.HIGHEST_PROTOCOL)


def _execute(system: System, case) -> tuple[Obs, float]:
    t0 = time.perf_counter()
    signal.setitimer(signal.ITIMER_REAL, system.deadline_s)
    try:
        obs = system.run(case)
    except DeadlineExpired:
        obs = Obs(
            digest="DEADLINE",
            violations=[
                violation(
                    "termination",
                    {"clause": "termination"},
                    f"execution exceeded the deadline of {system.deadline_s}s",
                )
            ],
        )
    except Exception as exc:  # an exception escaping the harness around the real code
        tb = traceback.extract_tb(exc.__traceback__)
        inner = tb[-1] if tb else None
        where = f"{os.path.basename(inner.filename)}:{inner.name}" if inner else "?"
        obs = Obs(
            digest=("EXC", type(exc).__name__, where),
            violations=[
                violation(
                    "unexpected-exception",
                    {
                        "clause": "unexpected-exception",
                        "exc": type(exc).__name__,
                        "where": where,
                    },
                    f"{type(exc).__name__}: {exc}",
                    traceback="".join(traceback.format_exception(exc))[-3000:],
                )
            ],
        )
    finally:
        signal.setitimer(signal.ITIMER_REAL, 0)
    return obs, time.perf_counter() - t0


def _worker(system: System, wid: int, nworkers: int, seed: int, wfd: int, t_end):
    signal.signal(signal.SIGALRM, _on_alarm)
    acc = _Acc(seed)
    try:
        system.worker_init(wid)
        first: list = []  # determinism re-execution (worker 0 only)
        for idx, case in enumerate(system.cases()):
            if (idx // system.chunk) % nworkers != wid:
                continue
            if t_end is not None and time.time() > t_end:
                acc.capped_at = idx
                break
            if system.fork_per_case:
                obs, dt = _execute_forked(system, case)
            else:
                obs, dt = _execute(system, case)
            acc.add(system, idx, case, obs, dt)
            if wid == 0 and len(first) < 50:
                first.append((idx, case, h64(obs.digest)))
        if wid == 0:
            for idx, case, dig in first:
                if system.fork_per_case:
                    obs, _ = _execute_forked(system, case)
                else:
                    obs, _ = _execute(system, case)
                if h64(obs.digest) != dig:
                    acc.errors.append(
                        f"non-deterministic observation for case #{idx}: {case!r}"
                    )
    except BaseException as exc:  # harness failure
        acc.errors.append(
            f"worker {wid} failed: {type(exc).__name__}: {exc}\n"
            + "".join(traceback.format_exception(exc))[-2000:]
        )
    data = acc.pack()
    with os.fdopen(wfd, "wb") as f:
        f.write(data)
    os._exit(0)


def _execute_forked(system: System, case) -> tuple[Obs, float]:
    """Run one case in a freshly forked child of this (pristine) worker."""
    t0 = time.perf_counter()
    r, w = os.pipe()
    pid = os.fork()
    if pid == 0:
        os.close(r)
        signal.signal(signal.SIGALRM, _on_alarm)
        obs, _ = _execute(system, case)
        try:
            data = pickle.dumps(obs)
        except Exception as exc:
            data = pickle.dumps(
                Obs(digest="PICKLE", violations=[], stats={"pickle_error": 1})
            )
        with os.fdopen(w, "wb") as f:
            f.write(data)
        os._exit(0)
    os.close(w)
    with os.fdopen(r, "rb") as f:
        data = f.read()
    os.waitpid(pid, 0)
    if not data:
        obs = Obs(
            digest="CHILD-DIED",
            violations=[
                violation(
                    "child-died",
                    {"clause": "child-died"},
                    "forked execution died without an answer",
                )
            ],
        )
    else:
        obs = pickle.loads(data)
    return obs, time.perf_counter() - t0


def run_system(system: System, ctx) -> SystemResult:
    t0 = time.time()
    res = SystemResult(name=system.name, description=system.description)
    res.bounds = system.bounds()
    res.alphabet = system.alphabet()
    res.rule = system.rule()
    system.prepare(ctx)
    if isinstance(system, FixpointSystem):
        _run_fixpoint(system, ctx, res)
        res.wall_s = time.time() - t0
        return res
    n = system.jobs or ctx.jobs
    t_end = (time.time() + system.time_budget_s) if system.time_budget_s else None
    pipes = []
    sys.stdout.flush()
    sys.stderr.flush()
    for wid in range(n):
        r, w = os.pipe()
        pid = os.fork()
        if pid == 0:
            os.close(r)
            for rr, _ in pipes:
                try:
                    os.close(rr)
                except OSError:
                    pass
            _worker(system, wid, n, ctx.seed, w, t_end)
            os._exit(0)
        os.close(w)
        pipes.append((r, pid))
    case_hashes: set[int] = set()
    outcomes: set[int] = set()
    canon: set[int] = set()
    samples = []
    for wid, (r, pid) in enumerate(pipes):
        with os.fdopen(r, "rb") as f:
            data = f.read()
        os.waitpid(pid, 0)
        if not data:
            res.errors.append(f"worker {wid} of {system.name} died without a result")
            continue
        d = pickle.loads(data)
        res.evaluations += d["n"]
        res.nontrivial += d["nontrivial"]
        res.transitions += d["transitions"]
        res.validated += d["validated"]
        res.stats.update(d["stats"])
        res.max_exec_s = max(res.max_exec_s, d["max_exec"])
        res.errors.extend(d["errors"])
        case_hashes |= d["case_hashes"]
        outcomes |= d["outcomes"]
        canon |= d["canon"]
        samples.extend(d["samples"])
        if d["capped_at"] is not None:
            res.exhaustive = False
            cap = f"time budget {system.time_budget_s}s hit (worker {wid} stopped at case #{d['capped_at']})"
            res.caps_hit.append(cap)
        for key, slot in d["viol"].items():
            tgt = res.violations.setdefault(key, {"count": 0, "examples": []})
            tgt["count"] += slot["count"]
            tgt["examples"].extend(slot["examples"])
    for slot in res.violations.values():
        slot["examples"].sort(key=lambda e: e["idx"])
        del slot["examples"][2:]
    samples.sort(key=lambda t: t[0])
    res.samples = [s[2] for s in samples[:5]]
    res.distinct_nontrivial = (
        res.nontrivial if system.distinct_by_construction else len(case_hashes)
    )
    res.distinct_outcomes = len(outcomes)
    res.states = len(canon)
    res.wall_s = time.time() - t0
    return res


def _run_fixpoint(system: FixpointSystem, ctx, res: SystemResult):
    signal.signal(signal.SIGALRM, _on_alarm)
    res.fixpoint = True
    symbols = system.symbols()
    acc = _Acc(ctx.seed)
    seen: dict[int, tuple] = {}
    obs0, dt = _execute(system, [])
    acc.add(system, 0, [], obs0, dt)
    seen[h64(obs0.canon)] = ()
    frontier = [[]]
    idx = 0
    depth = 0
    while frontier:
        nxt = []
        depth += 1
        for prefix in frontier:
            for sym in symbols:
                hist = prefix + [sym]
                idx += 1
                obs, dt = _execute(system, hist)
                acc.add(system, idx, hist, obs, dt)
                k = h64(obs.canon)
                if k not in seen:
                    seen[k] = tuple(hist)
                    nxt.append(hist)
                    if len(seen) > system.max_states:
                        res.exhaustive = False
                        res.caps_hit.append(f"max_states {system.max_states}")
                        nxt = []
                        frontier = []
                        break
            else:
                continue
            break
        frontier = nxt
    res.max_depth = depth - 1
    res.evaluations = acc.n
    res.nontrivial = acc.nontrivial
    res.distinct_nontrivial = acc.nontrivial
    res.transitions = acc.transitions
    res.validated = acc.validated
    res.stats.update(acc.stats)
    res.max_exec_s = acc.max_exec
    res.distinct_outcomes = len(acc.outcomes)
    res.states = len(seen)
    res.samples = [s[2] for s in acc.samples]
    res.violations = acc.viol
    res.errors = acc.errors
