"""C03 — every produced document is a well-formed docutils tree.

Systems (DESIGN.md §4 C03): invariants evaluated on EVERY generated document, directly after Parser.parse and after the
full transform pipeline (and, for a sub-space, after an in-process Sphinx read + post-transforms):
  fragments   all sequences of <= k fragments from the id / target / footnote / table / transition / directive pool
  grammar     the C02 block pairs and container nestings (content-model invariants under composition)
"""

from __future__ import annotations

import collections
import itertools
import urllib.parse

from docutils import nodes

from ..drivers import docutils_doctree, docutils_parse_only
from ..engine import Obs, System, violation
from . import c02

PROPERTY_ID = "C03"
LEVEL = "exploration"
ASSUMPTIONS = [
    "invariants: (i) one parent / one occurrence per node, (ii) section under document/section and starts with a title, (iii) transition under document/section, "
    "(iv) ids unique, (v) refid / backrefs resolve unless a 'not found' / 'Unknown target' report was issued for it, (vi) each row has tgroup['cols'] cells, "
    "(vii) after transforms each footnote starts with its label",
    "every body is framed by a leading marker paragraph (docutils' own DocInfo promotion of a leading field list discards ids; same with the rST parser)",
    "halt_level=5; when docutils' own Transitions transform aborts (assertion) the post-transform tree does not exist: the pre-transform invariants still apply, the abort itself is C01's",
]

EXT = ["colon_fence", "deflist", "fieldlist", "strikethrough", "substitution", "attrs_inline", "attrs_block", "html_image", "html_admonition", "dollarmath", "tasklist"]
SETTINGS = {"myst_enable_extensions": EXT, "myst_heading_anchors": 3, "myst_substitutions": {"fnsub": "see[^a]", "tgsub": "[span]{.c}"}}


def check_tree(doc, warn, post, sphinx_stage=False):
    v = []
    seen = set()
    ids = collections.Counter()
    for n in doc.findall():
        if id(n) in seen:
            v.append(("i-node-twice", n.tagname))
        seen.add(id(n))
        if isinstance(n, nodes.Element):
            for c in n.children:
                if c.parent is not n:
                    v.append(("i-parent-link", n.tagname + ">" + c.tagname))
            for i in n.get("ids", []):
                ids[i] += 1
            if isinstance(n, nodes.section):
                if not isinstance(n.parent, (nodes.document, nodes.section)):
                    v.append(("ii-section-parent", n.parent.tagname))
                if not (n.children and isinstance(n[0], nodes.title)):
                    v.append(("ii-section-no-title", n.children[0].tagname if n.children else "empty"))
            if isinstance(n, nodes.transition) and not isinstance(n.parent, (nodes.document, nodes.section)):
                v.append(("iii-transition-parent", n.parent.tagname))
            if isinstance(n, nodes.row):
                tg = n.parent.parent
                if isinstance(tg, nodes.tgroup) and len(n.children) != tg.get("cols"):
                    v.append(("vi-row-cols", f"{len(n.children)}!={tg.get('cols')}"))
            if isinstance(n, nodes.tgroup):
                if len([c for c in n.children if isinstance(c, nodes.colspec)]) != n.get("cols"):
                    v.append(("vi-colspec-count", str(n.get("cols"))))
            if post and isinstance(n, nodes.footnote) and not (n.children and isinstance(n[0], nodes.label)):
                v.append(("vii-footnote-no-label", ""))
    dup = sorted(i for i, c in ids.items() if c > 1)
    if dup and not (sphinx_stage and all(i.startswith("equation-") for i in dup)):
        # (Sphinx' own math directive leaves duplicate 'equation-<label>' ids for a label used twice: not MyST's)
        v.append(("iv-duplicate-id", "+".join(dup)))
    allids = set(ids)
    for n in doc.findall(lambda n: isinstance(n, (nodes.reference, nodes.footnote_reference, nodes.target))):
        r = n.get("refid")
        if r and r not in allids:
            ru = urllib.parse.unquote(r)  # the refid keeps the percent-encoded href, the report names the decoded target
            reported = (("not found: %r" % r) in warn or ("not found: %r" % ru) in warn or ("Unknown target name" in warn)
                        or ((r in warn or ru in warn) and "not found" in warn)
                        # the report is attached to the very reference (its text may spell the target differently, e.g. '#//[x]' -> refid '//x')
                        or any(isinstance(c, nodes.system_message) and "not found" in c.astext() for c in n.children)
                        # docutils' wording of 'target not found' for an automatically numbered footnote reference
                        or (isinstance(n, nodes.footnote_reference) and "Too many autonumbered footnote references" in warn))
            if not reported and post:
                v.append(("v-dangling-refid", n.tagname))
    if post:
        # narrow classification of one known cause: a docutils directive reported an error and threw its parsed body away
        # (kept only as a literal block), after a footnote reference inside it had been registered with the document
        discarded = (any("[^" in lb.astext() for sm in doc.findall(nodes.system_message) for lb in sm.findall(nodes.literal_block))
                     or (sphinx_stage and ("Figure caption must be a paragraph" in warn or "Error parsing content block" in warn)))  # Sphinx drops the message nodes
        for f in doc.findall(nodes.footnote):
            for b in f.get("backrefs", []):
                if b not in allids:
                    v.append(("v-dangling-backref", "footnote-reference-in-discarded-directive-content" if discarded else "footnote"))
    return v


FR = [
    "para\n", "# H\n", "## H\n", "# H\n", "(t)=\n", "{#i}\npara q\n", "{#i}\npara r\n", "[](#t)\n", "[](#nope)\n", "x[^a]\n", "[^a]: A\n", "[^a]: B\n", "x[^zz]\n",
    "---\n", "> ---\n\n> q\n", "- ---\n", "- l\n", "|a|b|\n|-|-|\n|1|\n", "|a|\n|-|\n|1|2|\n", "|a|b|\n|-|-|\n", "```{note}\n:name: n1\nhi\n```\n", "```{note}\n:name: n1\nho\n```\n",
    "```{eval-rst}\n.. _rt:\n\nrstp\n```\n", "[](#rt)\n", "$$x$$ (lbl)\n", "$$y$$ (lbl)\n", "Term\n: def\n", ":f: v\n", "{abbr}`x (y)`\n", "{nosuch}`x`\n", "![a](b){#i}\n",
    "{#i}\n# Hid\n", "> ## Hq\n", "```{note}\n---\n```\n", "```{note}\n# Hn\n\n---\n\ntail\n```\n", "[t]: http://u\n\n[x][t] [y][nodef]\n", "```{figure} f.png\n:name: fig1\n\ncap\n```\n",
    "[](#fig1)\n", "```{table} T\n:name: tbl\n\n|a|\n|-|\n|1|\n```\n", "***\n\n***\n", "<div class=\"admonition\" name=\"n1\">\n<p>hn</p>\n</div>\n", "- [ ] task\n", "+++\n",
    "[^a]: A\n\n(a)=\npara named a\n", "[^a]: A\n\n```{note}\n:name: a\nn\n```\n", "![see [^a]](img.png)\n", "![a [b]{#x}](i.png)\n\n[l](#x)\n", "![alt (t)= {#i}](i.png){#img}\n",
    "```{line-block}\na\n  b\nc\n```\n", "```{line-block}\na\n  b\n    c\n  d\ne\n```\n", "<img src=\"a.png\" name=\"foo\">\n<img alt=\"x\">\n\n[link](#foo)\n",
"```{figure} a.png\n- item\n\n  (tf)=\n  para\n```\n\n[](#tf)\n", "```{figure} a.png\n> ## Hq in figure\n```\n\n[](#hq-in-figure)\n", "```{figure} a.png\n- item x[^a]\n```\n",
    "```{list-table}\n(tl)=\npara x[^a]\n```\n\n[](#tl)\n", "y[^d]\n\n```{figure} a.png\n- item\n\n  [^d]: definition in discarded content\n```\n",
        "<img src=\"a.png\" name=\"foo2\">\n<p>not convertible</p>\n\n[link](#foo2)\n", "<div class=\"admonition\" name=\"adm2\">\n<p>x[^a]</p>\n</div>\n<hr>\n\n[l](#adm2)\n",
        "```{admonition} Title {nosuchrole}`x`\nbody\n```\n", "```{rubric} R {nosuchrole}`y`\n```\n", "```{topic} Topic {nosuchrole}`z`\nbody\n```\n",
    "```{table} Cap {nosuchrole}`t`\n\n|a|\n|-|\n|b|\n```\n", "```{epigraph}\nq\n\n-- attr {nosuchrole}`a`\n```\n",
        "{{fnsub}} and again {{fnsub}}\n", "- {{fnsub}}\n- {{tgsub}} {{fnsub}}\n",
    "### H3 skipped\n", "#### H4 skipped\n\ntext\n", "{#h}\npara with the id of a heading\n", "{#h-1}\n- list with the id of the second H\n", "![a](b){#h3-skipped}\n",
    "(t2)=\n## Titled target\n", "[](#t2) and [](#t2) and <project:#t2>\n", "[](#fig1) [](#fig1)\n", "[](#h) [](#h)\n", "x[^a] y[^a]\n",
]


class FragmentSystem(System):
    name = "fragments"

    def __init__(self, tier):
        super().__init__(tier)
        self.k = 2 if tier == "quick" else 3
        self.description = (f"all sequences of <= {self.k} fragments from a {len(FR)}-fragment pool (explicit / attribute / directive / rST targets, duplicate ids and names, "
                            "footnotes defined twice or never, ragged tables, transitions at every position incl. inside quote / list / directive, resolved and missing '#'-links); "
                            "invariants after Parser.parse and after the full pipeline")

    def bounds(self):
        return {"fragments": self.k, "pool": len(FR)}

    def alphabet(self):
        return FR

    def rule(self):
        return "one case = one fragment sequence (2 documents: pre- and post-transform); non-trivial = the document has an id-bearing node or a table or a transition"

    def cases(self):
        for n in range(1, self.k + 1):
            for idx in itertools.product(range(len(FR)), repeat=n):
                yield list(idx)

    def run(self, idx):
        text = "MARKER first paragraph\n\n" + "\n".join(FR[i] for i in idx)
        return run_doc(text)


def run_doc(text, sig_extra=None, rich=False):
    viol = []
    dig = []

    def add(stage, found):
        for clause, detail in sorted(set(found)):
            viol.append(violation(clause, {"clause": clause, "detail": detail.split(">")[0] if clause.startswith("i-") else detail, "stage": stage},
                                  f"{stage}: invariant {clause} violated ({detail})", text=text))

    pre, wpre = docutils_parse_only(text, SETTINGS)
    f1 = check_tree(pre, wpre, post=False)
    add("after-parse", f1)
    dig.append(tuple(sorted(set(f1))))
    aborted = False
    try:
        post, wpost = docutils_doctree(text, SETTINGS)
    except AssertionError:
        aborted = True  # docutils' Transitions transform refuses a transition that starts a block quote: C01's clause; the cause is visible pre-transform
    if not aborted:
        f2 = check_tree(post, wpost, post=True)
        add("after-transforms", f2)
        dig.append(tuple(sorted(set(f2))))
        if rich:  # observed shape of the result: warnings issued, id-bearing nodes, node kinds
            dig.append((wpost.count("WARNING") + wpost.count("ERROR"), sum(1 for n in post.findall(nodes.Element) if n.get("ids")),
                        tuple(sorted({n.tagname for n in post.findall(nodes.Element)}))))
        nt = any(isinstance(n, (nodes.table, nodes.transition)) or (isinstance(n, nodes.Element) and n.get("ids")) for n in post.findall())
    else:
        nt = True
    return Obs(digest=tuple(dig), nontrivial=nt, violations=viol[:4], transitions=2, validated=2, stats={"transform_aborted": int(aborted)})


class SlotSystem(System):
    """C01's template x atom product, judged by the well-formedness invariants instead of totality"""

    name = "slots"

    def __init__(self, tier):
        super().__init__(tier)
        from . import c01

        self.T, self.A = c01.TEMPLATES, c01.ATOMS
        self.description = (f"{len(self.T)} one-slot syntactic templates x {len(self.A)} hostile atoms (the C01 product): "
                            "invariants after Parser.parse and after the full pipeline")

    def bounds(self):
        return {"templates": len(self.T), "atoms": len(self.A)}

    def rule(self):
        return "one case = (template, atom) (2 documents: pre- and post-transform); an escaping exception is C01's, not judged here"

    def cases(self):
        for t in range(len(self.T)):
            for a in range(len(self.A)):
                yield [t, a]

    def run(self, case):
        t, a = case
        body = self.T[t].replace("@", self.A[a])
        text = body if body.startswith("---") else "MARKER first paragraph\n\n" + body
        try:
            return run_doc(text, rich=True)
        except (Exception, RecursionError) as exc:
            return Obs(digest=("exc", type(exc).__name__), nontrivial=False, transitions=1, validated=1)


RAWF = ["a\\\nb\n", "x <b>i</b> y\n", "<div>blk</div>\n", "~~s~~\n", "> q\\\n> r\n", "- i <u>u</u>\n", "```{raw} html\n<p>r</p>\n```\n", "|a\\|\n|-|\n|b<br>c|\n"]


class RawDisabledSystem(System):
    """the replacement of raw nodes under raw_enabled=False must leave a well-formed tree as well"""

    name = "raw-disabled"

    def __init__(self, tier):
        super().__init__(tier)
        self.k = 2 if tier == "quick" else 3
        self.description = f"all sequences of <= {self.k} raw-carrying fragments (hard breaks, inline / block HTML, strikethrough, raw directive) rendered with raw_enabled=False: same invariants"

    def bounds(self):
        return {"fragments": self.k, "pool": len(RAWF)}

    def rule(self):
        return "one case = one fragment sequence; non-trivial = always"

    def cases(self):
        for n in range(1, self.k + 1):
            for idx in itertools.product(range(len(RAWF)), repeat=n):
                yield list(idx)

    def run(self, idx):
        text = "MARKER first paragraph\n\n" + "\n".join(RAWF[i] for i in idx)
        st = dict(SETTINGS, raw_enabled=False)
        viol = []
        doc, warn = docutils_doctree(text, st)
        found = check_tree(doc, warn, post=True)
        if list(doc.findall(nodes.raw)):
            found.append(("raw-survives", "raw"))
        for clause, detail in sorted(set(found)):
            viol.append(violation(clause, {"clause": clause, "detail": detail.split(">")[0] if clause.startswith("i-") else detail, "stage": "raw-disabled"},
                                  f"raw_enabled=False: invariant {clause} violated ({detail})", text=text))
        return Obs(digest=(tuple(sorted(set(found))), warn.count("Raw content disabled")), violations=viol[:4])


class GrammarSystem(System):
    name = "grammar"

    def __init__(self, tier):
        super().__init__(tier)
        self.description = ("the C02 grammar: every ordered pair of block constructs plain / in a quote / in a list item, and every container chain of depth <= "
                            + ("2" if tier == "quick" else "3") + " around every block; same invariants, pre- and post-transform")

    def bounds(self):
        return {"blocks": 2, "depth": 2 if self.tier == "quick" else 3, "pool": len(c02.BLK)}

    def rule(self):
        return "one case = one document of the C02 grammar; non-trivial as above"

    def cases(self):
        n = len(c02.BLK)
        for a, b in itertools.product(range(n), repeat=2):
            for w in ("top", "quote", "item"):
                if self.tier == "quick" and w == "item" and (a % 2 or b % 2):
                    continue
                yield ["p", [a, b], w]
        d = 2 if self.tier == "quick" else 3
        for k in range(1, d + 1):
            for chain in itertools.product(c02.CONT, repeat=k):
                for b in range(n):
                    yield ["n", [b], "".join(chain)]

    def run(self, case):
        kind, idx, w = case
        if kind == "p":
            body = c02.WRAPS[w]("\n".join(c02.BLK[i] for i in idx))
        else:
            body = c02.BLK[idx[0]]
            for c in reversed(w):
                body = c02.CONT[c](body)
            body += "\nafter\n"
        return run_doc("MARKER first paragraph\n\n" + body)


SX_FR = FR + ["```{only} html\n## Honly\n\ntext\n```\n", "```{only} html\n# H1only\n\ntext\n\n## H2only\n```\n", "### Deep\n", "````{note}\n```{only} html\n## Hn\n```\n````\n"]


class SphinxSystem(System):
    name = "sphinx"
    jobs = 8

    def __init__(self, tier):
        super().__init__(tier)
        self.k = 2
        self.description = "all sequences of <= 2 fragments through the in-process Sphinx front end (read + post-transforms): same invariants on the resolved doctree"

    def prepare(self, ctx):
        self.root = ctx.scratch / "c03sx"
        self.root.mkdir(exist_ok=True)

    def worker_init(self, wid):
        from ..drivers import SphinxDriver

        self.drv = SphinxDriver(self.root / f"w{wid}", conf=f"myst_enable_extensions={EXT!r}\nmyst_heading_anchors=3\nsuppress_warnings=['image.not_readable']\n")

    def bounds(self):
        return {"fragments": 2, "pool": len(SX_FR)}

    def rule(self):
        return "one case = one fragment sequence (pool + Sphinx-only fragments: headings inside {only}); non-trivial = always"

    def cases(self):
        step = 1 if self.tier != "quick" else 2
        n = len(SX_FR)
        for i in range(n):
            yield [i]
        for a in list(range(0, len(FR), step)) + list(range(len(FR), n)):
            for b in range(n):
                yield [a, b]

    def run(self, idx):
        if not hasattr(self, "drv"):
            self.worker_init(99)
        text = "# Title\n\nMARKER first paragraph\n\n" + "\n".join(SX_FR[i] for i in idx)
        try:
            doc, warn = self.drv.read("t", text, resolve=True)
        except Exception as exc:
            return Obs(digest=("exc", type(exc).__name__), nontrivial=False, stats={"sphinx_raised": 1})
        found = check_tree(doc, warn + " Unknown target name" if "myst.xref_missing" in warn else warn, post=True, sphinx_stage=True)
        viol = [violation(c, {"clause": c, "detail": d.split(">")[0] if c.startswith("i-") else d, "stage": "sphinx"}, f"sphinx: invariant {c} violated ({d})", text=text)
                for c, d in sorted(set(found))]
        return Obs(digest=tuple(sorted(set(found))), violations=viol[:4])


def systems(tier):
    return [FragmentSystem(tier), SlotSystem(tier), GrammarSystem(tier), RawDisabledSystem(tier), SphinxSystem(tier)]
