"""C20 — docutils security settings are honoured for every input.

System (DESIGN.md §4 C20): every construct able to carry raw markup or a file path, instantiated with a sentinel
payload / sentinel file  x  nesting contexts (thorough: pairs of contexts, runs of adjacent constructs)  x
raw_enabled x file_insertion_enabled, through publish_doctree and the html5 writer.  Invariants on every state.
"""

from __future__ import annotations

import itertools
import re
import sys

from docutils import nodes

from ..drivers import docutils_doctree, docutils_html
from ..engine import Obs, System, violation

PROPERTY_ID = "C20"
LEVEL = "exploration"
ASSUMPTIONS = [
    "raw payloads carry the element <b data-s=\"N\">: an unescaped occurrence in the HTML output means raw content got through",
    "file payloads carry the words FILESENTn; reads are observed with a sys.addaudithook('open') installed by the harness",
    "docutils front end only (the post-processing loop lives in the docutils parser); file reads by writers (stylesheets) are outside the statement",
    "{image}/{figure} do not read their target at parse time and must not be refused",
]

EXT = ["colon_fence", "html_image", "html_admonition", "strikethrough", "substitution", "attrs_inline", "dollarmath", "deflist"]
_OPENED = []
_HOOKED = False


def _hook():
    global _HOOKED
    if not _HOOKED:
        sys.addaudithook(lambda ev, a: _OPENED.append(a[0]) if ev == "open" and isinstance(a[0], str) and "/sent" in a[0] and "c20" in a[0] else None)
        _HOOKED = True


def _ancestors(node, stop):
    a = node.parent
    while a is not None and a is not stop:
        yield a
        a = a.parent


def S(i):
    return f'<b data-s="{i}">p</b>'


# kind: raw -> must leave no raw node / sentinel when raw is disabled;  esc -> harmless (escaped) in every setting
RAWC = {
    "htmlblock": ("raw", lambda i: f"<div>{S(i)}</div>\n"),
    "htmlinline": ("raw", lambda i: f"in {S(i)} line\n"),
    "htmlinline3": ("raw", lambda i: f"x <i>a</i>{S(i)}<u>b</u> y\n"),
    "rawdir": ("raw", lambda i: f"```{{raw}} html\n{S(i)}\n```\n"),
    "rawrole": ("raw", lambda i: f"```{{role}} rh{i}(raw)\n:format: html\n```\n\n{{rh{i}}}`{S(i)}`\n"),
    "rst-raw": ("raw", lambda i: f"```{{eval-rst}}\n.. raw:: html\n\n   {S(i)}\n```\n"),
    "rst-rawrole": ("raw", lambda i: f"```{{eval-rst}}\n.. role:: rr{i}(raw)\n   :format: html\n\n:rr{i}:`{S(i)}`\n```\n"),
    "hardbreak": ("rawnode", lambda i: "a\\\nb\n"),
    "hardbreak-html": ("raw", lambda i: f"a\\\n{S(i)} b\\\nc\n"),
    "strike": ("rawnode", lambda i: "~~s~~\n"),
    "img": ("esc", lambda i: f'<img src="a.png" alt=\'{S(i)}\'>\n'),
    "admon": ("raw", lambda i: f'<div class="admonition">\n<p>{S(i)}</p>\n</div>\n'),
    "code": ("esc", lambda i: f"```html\n{S(i)}\n```\n"),
    "rawdir-latex": ("rawnode", lambda i: f"```{{raw}} latex\n{S(i)}\n```\n"),
    "subst-html": ("raw", lambda i: "{{rawsub}}\n"),
    "subst-rst-ref": ("raw", lambda i: "inline {{rawsub}} use\n\n{{rawsub}}\n\n```{eval-rst}\nsee |rawsub| here\n```\n"),  # the MyST substitution is not an rST substitution definition
    "footnote-in-discarded": ("raw", lambda i: f"x[^d{i}]\n\n```{{figure}} a.png\n- item\n\n  [^d{i}]: note {S(i)} and ~~s~~\n```\n"),
    # raw markup inside a heading that other things are derived from (ids, the text of empty links): the refusal must not leak into them
    "raw-title": ("raw", lambda i: f"(lbl{i})=\n## Head {S(i)} tail\n\n[](#lbl{i}) and [](#head-p-tail) and {{ref}}`lbl{i}`\n"),
    "epigraph-attr": ("raw", lambda i: f"```{{epigraph}}\nquote text\n\n-- attributed {S(i)} ~~s~~ end\n```\n"),
    "title-attr": ("esc", lambda i: f"[l](u '{S(i)}')\n"),
    "comment": ("rawnode-html", lambda i: f"<!-- {S(i)} -->\n"),
    "footnote-html": ("raw", lambda i: f"ref[^f{i}]\n\n[^f{i}]: note with {S(i)} and a\\\n  break\n"),
    "footnote-block": ("raw", lambda i: f"ref[^g{i}]\n\n[^g{i}]: first\n\n    <div>{S(i)}</div>\n"),
    "hardbreak-para": ("rawnode", lambda i: "p\\\nq\n"),
    # inline HTML in every inline / title position that is rendered by a nested inline pass
    "in-emph": ("raw", lambda i: f"**bold {S(i)} end**\n"),
    "in-link": ("raw", lambda i: f"[text {S(i)}](http://u)\n"),
    "in-heading": ("raw", lambda i: f"# Head {S(i)}\n"),
    "in-cell": ("raw", lambda i: f"| a | b |\n|---|---|\n| {S(i)} | c\\\n |\n"),
    "in-deflist": ("raw", lambda i: f"Term {S(i)}\n: definition ~~s~~\n"),
    "in-caption": ("raw", lambda i: f"```{{figure}} a.png\n\ncaption {S(i)}\n```\n"),
    "in-admon-title": ("raw", lambda i: f"```{{admonition}} Title {S(i)}\nbody\n```\n"),
    "in-table-caption": ("raw", lambda i: f"```{{table}} Cap {S(i)}\n\n| a |\n|---|\n| b |\n```\n"),
    "in-listtable": ("raw", lambda i: f"```{{list-table}}\n* - {S(i)}\n  - x\n```\n"),
    "in-refdef-title": ("esc", lambda i: f"[l][r{i}]\n\n[r{i}]: u '{S(i)}'\n"),
    "strike-nested": ("rawnode", lambda i: "- *a ~~s~~ b*\n"),
}
# kind: read -> must not be read / inserted when file insertion is disabled;  noread -> never reads
FILEC = {
    "include": ("read", "```{include} sent.md\n```\n"),
    "include-lit": ("read", "```{include} sent.md\n:literal:\n```\n"),
    "include-code": ("read", "```{include} sent.py\n:code: python\n```\n"),
    "include-sa": ("read", "```{include} sent.md\n:start-after: FILE\n```\n"),
    "include-std-abs": ("read", "```{include} <@DIR@/sent.md>\n```\n"),
    "include-std-abs-lit": ("read", "```{include} <@DIR@/sent.md>\n:literal:\n```\n"),
    "include-numbered": ("read", "```{include} sent.py\n:literal:\n:number-lines: 3\n```\n"),
    "include-endbefore": ("read", "```{include} sent.md\n:end-before: zzz-not-there-FILESENT\n```\n"),
    "rawfile": ("read", "```{raw} html\n:file: sent.html\n```\n"),
    "csvfile": ("read", "```{csv-table}\n:file: sent.csv\n```\n"),
    "rst-include": ("read", "```{eval-rst}\n.. include:: sent.rst\n```\n"),
    "rst-include-lit": ("read", "```{eval-rst}\n.. include:: sent.rst\n   :literal:\n```\n"),
    "rst-include-code": ("read", "```{eval-rst}\n.. include:: sent.py\n   :code: python\n```\n"),
    "rst-csv": ("read", "```{eval-rst}\n.. csv-table::\n   :file: sent.csv\n```\n"),
    "rst-rawfile": ("read", "```{eval-rst}\n.. raw:: html\n   :file: sent.html\n```\n"),
    "image": ("noread", "```{image} sent.html\n```\n"),
    "figure": ("noread", "```{figure} sent.md\n```\n"),
}


def ctx_top(s):
    return s


def ctx_quote(s):
    return "".join("> " + l + "\n" if l else ">\n" for l in s.split("\n")[:-1])


def ctx_list(s):
    return "- i\n\n" + "".join("  " + l + "\n" if l else "\n" for l in s.split("\n")[:-1])


def ctx_note(s):
    return "``````{note}\n\n" + s + "``````\n"


def ctx_div(s):
    return "::::::{tip}\n" + s + "::::::\n"


CTX = {"top": ctx_top, "quote": ctx_quote, "list": ctx_list, "note": ctx_note, "colon": ctx_div}


class SecuritySystem(System):
    name = "constructs"
    chunk = 2

    def __init__(self, tier):
        super().__init__(tier)
        self.depth = 1 if tier == "quick" else 2
        self.description = (f"{len(RAWC)} raw-carrying and {len(FILEC)} file-carrying constructs x nesting contexts "
                            f"(top, quote, list item, note, colon directive, included file, substitution value; depth <= {self.depth}) "
                            "+ runs of 2-4 adjacent raw constructs x raw_enabled x file_insertion_enabled, doctree and html5 output")

    def prepare(self, ctx):
        self.dir = ctx.scratch / "c20"
        self.dir.mkdir(exist_ok=True)
        (self.dir / "sent.md").write_text('FILESENT1 <b data-s="91">x</b>\n')
        (self.dir / "sent.rst").write_text("FILESENT2\n")
        (self.dir / "sent.csv").write_text("FILESENT3,b\n")
        (self.dir / "sent.html").write_text('<i data-s="92">FILESENT4</i>\n')
        (self.dir / "sent.py").write_text("FILESENT5 = 1\n")

    def worker_init(self, wid):
        _hook()
        self.wid = wid

    def bounds(self):
        return {"nesting_depth": self.depth, "constructs": len(RAWC) + len(FILEC)}

    def alphabet(self):
        return {"raw": list(RAWC), "file": list(FILEC), "contexts": list(CTX) + ["incl", "subst"]}

    def rule(self):
        return "one case = (constructs, context chain): run under the 4 settings (transitions); non-trivial = the payload appears when both settings are on"

    def cases(self):
        names = list(RAWC) + list(FILEC)
        ctxs = list(CTX) + ["incl", "subst"]
        for c in names:
            for x in ctxs:
                yield [[c], [x]]
        if self.depth >= 2:
            for c in names:
                for x in itertools.product(list(CTX), ctxs):
                    yield [[c], list(x)]
        # runs of adjacent raw constructs (siblings) — the scrub loop must visit all of them
        inl = ["htmlinline", "htmlinline3", "hardbreak-html", "rawrole"]
        blk = ["htmlblock", "rawdir", "rst-raw", "admon", "comment", "hardbreak-para", "footnote-html", "strike", "strike-nested"]
        for n in (2, 3, 4) if self.depth >= 2 else (2, 3):
            for combo in itertools.product(blk, repeat=n):
                if n >= 3 and len(set(combo)) > 2:
                    continue
                for x in ("top", "quote", "note"):
                    yield [list(combo), [x]]
        for n in (2, 3):
            for combo in itertools.product(inl, repeat=n):
                yield [list(combo), ["top"]]
        # file constructs side by side
        fl = [k for k, (kind, _) in FILEC.items() if kind == "read"]
        for a, b in itertools.product(fl, repeat=2):
            if a <= b:  # (a, a): the SAME refused construct twice - each refusal is reported
                yield [[a, b], ["top"]]
        for a in fl:
            yield [[a, a, a], ["quote"]]

    def build(self, case):
        cons, chain = case
        base = 1000
        parts, sents, kinds, subs = [], [], [], {}
        for j, c in enumerate(cons):
            i = base + j
            if c in RAWC:
                kind, mk = RAWC[c]
                parts.append(mk(i))
                subs["rawsub"] = S(i)
                sents.append(i)
                kinds.append(kind)
            else:
                kind, txt = FILEC[c]
                parts.append(txt.replace("@DIR@", str(self.dir)))
                kinds.append(kind)
        body = "\n".join(parts)
        # inline constructs in one paragraph when all are inline
        if len(cons) > 1 and all(c in ("htmlinline", "htmlinline3", "hardbreak-html", "rawrole") for c in cons):
            roles = "".join(p.split("\n\n")[0] + "\n\n" for p in parts if p.startswith("```{role}"))
            inl = " ".join((p.split("\n\n", 1)[1] if p.startswith("```{role}") else p).strip() for p in parts)
            body = roles + inl + "\n"
        files = {}
        for x in reversed(chain):
            if x == "incl":
                name = f"wrap{len(files)}-{getattr(self, 'wid', 'r')}.md"
                files[name] = body
                body = f"```{{include}} {name}\n```\n"
            elif x == "subst":
                subs["k"] = body
                body = "{{k}}\n"
            else:
                body = CTX[x](body)
        text = "PRE\n\n" + body + "\nPOST\n"
        return text, subs, files, sents, kinds

    def run(self, case):
        cons, chain = case
        text, subs, files, sents, kinds = self.build(case)
        for name, content in files.items():
            (self.dir / name).write_text(content)
        src = str(self.dir / "x.md")
        viol = []
        via_file = "incl" in chain
        digest = []
        positive = False

        def bad(clause, msg, **sig):
            viol.append(violation(clause, {"clause": clause, "construct": "+".join(sorted(set(cons))), **sig},
                                  f"{cons} in {chain}: {msg}", text=text, files=files, substitutions=subs))

        shape = {}
        for raw in (True, False):
            for fi in (True, False):
                st = {"myst_enable_extensions": EXT, "myst_substitutions": subs, "raw_enabled": raw, "file_insertion_enabled": fi}
                del _OPENED[:]
                d, w = docutils_doctree(text, st, source_path=src)
                h, _ = docutils_html(text, st, source_path=src)
                opened = [o for o in _OPENED if "wrap" not in o]
                nraw = len(list(d.findall(nodes.raw)))
                sent_html = [i for i in sents if f'data-s="{i}"' in h] + (["91/92"] if re.search(r'data-s="9[12]"', h) else [])
                fsent = bool(re.search(r"FILESENT\d", h + d.astext()))
                digest.append((nraw, bool(sent_html), fsent, len(opened)))

                def own_text(n):
                    return "".join(t.astext() for t in n.findall(nodes.Text)
                                   if not any(isinstance(a, (nodes.system_message, nodes.raw)) for a in _ancestors(t, n)))

                shape[(raw, fi)] = (tuple(tuple(sec["ids"]) for sec in d.findall(nodes.section)), tuple(own_text(r) for r in d.findall(nodes.reference)))
                if "PRE" not in h or "POST" not in h or "PRE" not in d.astext() or "POST" not in d.astext():
                    bad("rest-processed", f"raw_enabled={raw} file_insertion_enabled={fi}: the surrounding paragraphs were lost", raw=raw, fi=fi)
                if not raw:
                    if nraw:
                        bad("raw-node", f"raw_enabled=False: {nraw} raw node(s) survive in the doctree", context="+".join(chain) if len(cons) == 1 else "run")
                    if sent_html:
                        bad("raw-output", f"raw_enabled=False: unescaped sentinel element(s) {sent_html} in the HTML output", context="+".join(chain) if len(cons) == 1 else "run")
                    nref = sum(1 for k in kinds if k in ("raw", "rawnode", "rawnode-html"))
                    if nref and (fi or not via_file) and not re.search(r"(WARNING|ERROR|SEVERE)", w):
                        bad("refusal-reported", "raw_enabled=False: raw content was refused without any warning")
                if not fi and not via_file:
                    if fsent:
                        bad("file-inserted", "file_insertion_enabled=False: file content was inserted", context="+".join(chain) if len(cons) == 1 else "run")
                    if opened:
                        bad("file-opened", f"file_insertion_enabled=False: the file was opened: {sorted(set(opened))}", context="+".join(chain) if len(cons) == 1 else "run")
                    nread = sum(1 for k in kinds if k == "read")
                    nrep = len(re.findall(r"\((?:WARNING|ERROR|SEVERE)/\d\)", w))
                    if nread and nrep < nread:
                        bad("refusal-reported", f"file_insertion_enabled=False: {nrep} reports for {nread} refused file directives", reports=min(nrep, 1))
                if raw and fi:
                    positive = bool(nraw or sent_html or fsent or opened)
        for fi in (True, False):
            if shape.get((False, fi)) != shape.get((True, fi)) and not via_file and all(k in ("raw", "rawnode", "rawnode-html", "esc") for k in kinds):
                bad("rest-processed", f"file_insertion_enabled={fi}: section ids / link texts with raw disabled {shape.get((False, fi))} differ from those with raw enabled {shape.get((True, fi))}",
                    kind="derived-text")
        return Obs(digest=tuple(digest), nontrivial=positive, violations=viol[:4], transitions=8, validated=4)


def systems(tier):
    return [SecuritySystem(tier)]
