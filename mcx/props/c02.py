"""C02 — the doctree is a faithful image of the Markdown token tree.

Reference model: markdown-it's own token tree, create_md_parser(config, RendererHTML).parse(text) -> SyntaxTreeNode,
which does not involve DocutilsRenderer.  Both trees are reduced to a *skeleton* (nested tuples of tracked containers
and leaves) and compared for equality.

Systems (DESIGN.md §4 C02):
  inlines    every sequence of <= i inline constructs inside paragraph / heading / list item / quote / table cell
  blocks     every ordered pair (thorough: triple over a sub-pool) of block constructs, plain and inside quote / list item
  nesting    every container chain of depth <= d around every block construct
  sphinx     the pair sub-space through the in-process Sphinx front end: skeleton must equal the docutils one
all under the modes commonmark_only, MyST without extensions, MyST with all static extensions, gfm (linkify rule off).
"""

from __future__ import annotations

import io
import itertools

from docutils import nodes
from docutils.frontend import get_default_settings
from docutils.utils import new_document
from markdown_it.renderer import RendererHTML
from markdown_it.tree import SyntaxTreeNode

from ..engine import Obs, System, violation

PROPERTY_ID = "C02"
LEVEL = "model_checking"
ASSUMPTIONS = [
    "reference model = markdown-it-py's token tree for the same text and configuration (independent of DocutilsRenderer)",
    "skeleton: adjacent text merged and empty text dropped on both sides; section nesting flattened (C05 owns it); system_message nodes skipped",
    "code-block text compared modulo one final line terminator (docutils' pygments lexer drops it for highlighted blocks)",
    "gfm mode = gfm_only configuration with the linkify rule disabled (linkify-it-py not importable)",
    "Sphinx vs docutils: non-URL link destinations and the language of un-annotated fences are masked",
]

from myst_parser.config.main import MdParserConfig  # noqa: E402
from myst_parser.mdit_to_docutils.base import DocutilsRenderer  # noqa: E402
from myst_parser.parsers.docutils_ import Parser  # noqa: E402
from myst_parser.parsers.mdit import create_md_parser  # noqa: E402

ALLEXT = ["dollarmath", "strikethrough", "deflist", "fieldlist", "colon_fence", "attrs_inline", "attrs_block", "smartquotes", "replacements", "tasklist", "amsmath"]
MODES = {
    "cm": dict(commonmark_only=True),
    "myst": dict(),
    "ext": dict(enable_extensions=ALLEXT),
    "gfm": dict(gfm_only=True),
}


def alt_text(c):
    r = ""
    for ch in c.children or []:
        if ch.type in ("text", "code_inline"):
            r += ch.content
        elif ch.type in ("softbreak", "hardbreak"):
            r += "\n"
        else:
            r += alt_text(ch)
    return r


def md_alt(c):
    """alt text exactly as markdown-it's own renderer derives it from the image token's children"""
    toks = c.to_tokens()
    return RendererHTML().renderInlineAsText(toks[0].children or [], {}, {})


def merge_text(items):
    out = []
    for it in items:
        if it[0] == "text" and out and out[-1][0] == "text":
            out[-1] = ("text", out[-1][1] + it[1])
        else:
            out.append(it)
    return out


def chomp(s):
    return s[:-1] if s.endswith("\n") else s


def tok_skel(node):
    out = []
    for c in node.children:
        t = c.type
        if t == "inline":
            out += tok_skel(c)
        elif t == "text":
            if c.content:
                out.append(("text", c.content))
        elif t == "softbreak":
            out.append(("text", "\n"))
        elif t == "hardbreak":
            out.append(("hardbreak",))
        elif t == "code_inline":
            out.append(("code_inline", c.content))
        elif t == "code_block":
            out.append(("code", chomp(c.content), ""))
        elif t == "fence":
            out.append(("code", chomp(c.content), (c.info.strip().split() or [""])[0]))
        elif t in ("html_block", "html_inline"):
            out.append(("html", c.content))
        elif t == "hr":
            out.append(("hr",))
        elif t == "image":
            out.append(("image", c.attrGet("src"), md_alt(c), c.attrGet("title")))
        elif t == "paragraph":
            out.append(("paragraph", tok_skel(c)))
        elif t == "heading":
            out.append(("heading", tok_skel(c)))
        elif t == "blockquote":
            out.append(("blockquote", tok_skel(c)))
        elif t == "bullet_list":
            out.append(("bullet_list", c.markup, tok_skel(c)))
        elif t == "ordered_list":
            out.append(("ordered_list", c.markup, c.attrGet("start"), tok_skel(c)))
        elif t == "list_item":
            out.append(("list_item", tok_skel(c)))
        elif t == "em":
            out.append(("em", tok_skel(c)))
        elif t == "strong":
            out.append(("strong", tok_skel(c)))
        elif t == "link":
            out.append(("link", c.attrGet("href"), c.attrGet("title"), tok_skel(c)))
        elif t == "table":
            rows = []
            for sec in c.children:
                for r in sec.children:
                    rows.append(("row", [("cell", cell.attrGet("style"), tok_skel(cell)) for cell in r.children]))
            out.append(("table", rows))
        elif t == "dl":
            out.append(("dl", tok_skel(c)))
        elif t == "dt":
            out.append(("dt", tok_skel(c)))
        elif t == "dd":
            out.append(("dd", tok_skel(c)))
        elif t == "field_list":
            out.append(("field_list", tok_skel(c)))
        elif t == "fieldlist_name":
            out.append(("fname", tok_skel(c)))
        elif t == "fieldlist_body":
            if c.children:
                out.append(("fbody", tok_skel(c)))
        elif t in ("math_inline", "math_single"):
            out.append(("math", c.content))
        elif t in ("math_block", "math_inline_double", "math_block_label", "amsmath"):
            out.append(("mathblock", c.content.strip()))
        elif t == "s":
            out.append(("s", tok_skel(c)))
        elif t == "myst_block_break":
            out.append(("break", c.content))
        elif t == "myst_line_comment":
            out.append(("comment", c.content.strip()))
        elif t == "myst_target":
            out.append(("target", c.content))
        elif t == "colon_fence":
            out.append(("colon_fence", (c.info or "").strip(), c.content))
        elif t == "span":
            out.append(("span", tok_skel(c)))
        elif t == "front_matter":
            continue  # not one of the tracked leaves (an empty front matter renders nothing); non-empty front matter is not generated
        elif t in ("footnote_ref", "myst_role", "footnote_reference", "substitution_inline", "substitution_block"):
            out.append(("?" + t,))
        else:
            out.append(("?" + t,))
    return merge_text(out)


def doc_skel(node, sphinx=False):
    out = []
    ch = list(node.children)
    i = 0
    while i < len(ch):
        c = ch[i]
        i += 1
        if isinstance(c, nodes.Text):
            if str(c):
                out.append(("text", str(c)))
        elif isinstance(c, nodes.system_message):
            continue
        elif isinstance(c, nodes.raw):
            if c["format"] == "html" and c.astext() == "<br />\n" and i < len(ch) and isinstance(ch[i], nodes.raw) and ch[i]["format"] == "latex":
                i += 1
                out.append(("hardbreak",))
            elif c["format"] == "html" and c.astext() in ("<s>", "</s>"):
                out.append(("smark", c.astext()))
            else:
                out.append(("html", c.astext()))
        elif isinstance(c, nodes.literal):
            out.append(("code_inline", c.astext()))
        elif isinstance(c, nodes.literal_block):
            cl = [x for x in c["classes"] if x != "code"]
            lang = c.get("language") if sphinx and "language" in c.attributes else (cl[0] if cl else "")
            out.append(("code", chomp(c.astext()), lang or ""))
        elif isinstance(c, nodes.transition):
            out.append(("hr",))
        elif isinstance(c, nodes.image):
            out.append(("image", c["uri"], c.get("alt", ""), c.get("title")))
        elif isinstance(c, nodes.paragraph):
            out.append(("paragraph", doc_skel(c, sphinx)))
        elif isinstance(c, nodes.section):
            out.append(("heading", doc_skel(c.children[0], sphinx)))
            w = nodes.Element()
            w.children = c.children[1:]
            out += doc_skel(w, sphinx)
        elif isinstance(c, nodes.rubric):
            out.append(("heading", doc_skel(c, sphinx)))
        elif isinstance(c, nodes.block_quote):
            out.append(("blockquote", doc_skel(c, sphinx)))
        elif isinstance(c, nodes.bullet_list):
            out.append(("bullet_list", c.get("bullet"), doc_skel(c, sphinx)))
        elif isinstance(c, nodes.enumerated_list):
            out.append(("ordered_list", c["suffix"], c.get("start"), doc_skel(c, sphinx)))
        elif isinstance(c, nodes.list_item):
            out.append(("list_item", doc_skel(c, sphinx)))
        elif isinstance(c, nodes.emphasis):
            out.append(("em", doc_skel(c, sphinx)))
        elif isinstance(c, nodes.strong):
            out.append(("strong", doc_skel(c, sphinx)))
        elif isinstance(c, nodes.reference):
            out.append(("link", c.get("refuri", c.get("refname")), c.get("reftitle"), doc_skel(c, sphinx)))
        elif c.tagname in ("pending_xref", "download_reference"):
            inner = c
            if len(c.children) == 1 and isinstance(c.children[0], nodes.inline):
                inner = c.children[0]
            # an unresolved MyST reference keeps its whole destination (fragment included) for the resolver
            dest = "XREF:" + str(c.get("reftarget")) if (c.tagname == "pending_xref" and c.get("reftype") == "myst" and c.get("refdomain") is None and "#" in str(c.get("reftarget", ""))
                                                         or (c.tagname == "pending_xref" and c.get("reftype") == "myst" and c.get("refdomain") is None and c.get("reftarget") == FRAG_DEST.split("#")[0])) else "XREF"
            out.append(("link", dest, c.get("reftitle") or c.get("title"), doc_skel(inner, sphinx)))
        elif isinstance(c, nodes.table):
            rows = []
            for r in c.findall(nodes.row):
                cells = []
                for e in r.children:
                    st = [x for x in e["classes"] if x.startswith("text-")]
                    body = e.children[0] if e.children else nodes.paragraph()
                    cells.append(("cell", ("text-align:" + st[0][5:]) if st else None, doc_skel(body, sphinx)))
                rows.append(("row", cells))
            out.append(("table", rows))
        elif isinstance(c, nodes.definition_list):
            items = []
            for it in c.children:
                for x in it.children:
                    if isinstance(x, nodes.term):
                        items.append(("dt", doc_skel(x, sphinx)))
                    elif isinstance(x, nodes.definition):
                        items.append(("dd", doc_skel(x, sphinx)))
                    else:
                        items.append(("?" + x.tagname,))
            out.append(("dl", items))
        elif isinstance(c, nodes.field_list):
            items = []
            for f in c.children:
                items.append(("fname", doc_skel(f[0], sphinx)))
                if len(f[1].children):
                    items.append(("fbody", doc_skel(f[1], sphinx)))
            out.append(("field_list", items))
        elif isinstance(c, nodes.math):
            out.append(("math", c.astext()))
        elif isinstance(c, nodes.math_block):
            out.append(("mathblock", "".join(x.astext() for x in c.children if not isinstance(x, nodes.system_message)).strip()))
        elif isinstance(c, nodes.comment):
            out.append(("break" if "block_break" in c["classes"] else "comment", c.astext()))
        elif isinstance(c, nodes.target):
            if sphinx and i < len(ch) and isinstance(ch[i], nodes.math_block):
                continue  # Sphinx puts the label target of a math block in front of it
            out.append(("target", c.get("refid") or (c["names"] or c["dupnames"] or [""])[0]))
        elif isinstance(c, nodes.container) and c.get("is_div"):
            out.append(("div", doc_skel(c, sphinx)))
        elif isinstance(c, nodes.inline):
            out.append(("span", doc_skel(c, sphinx)))
        else:
            out.append(("?" + c.tagname,))
    out = merge_text(out)
    # strikethrough is rendered as raw <s> ... </s> siblings: fold them into an ("s", [...]) container
    res, stack = [], []
    for it in out:
        if it == ("smark", "<s>"):
            stack.append(res)
            res = []
        elif it == ("smark", "</s>") and stack:
            inner = res
            res = stack.pop()
            res.append(("s", inner))
        else:
            res.append(it)
    while stack:
        inner = res
        res = stack.pop()
        res += inner
    return res


_SET = None


def render_docutils(text, cfg, gfm=False):
    global _SET
    if _SET is None:
        _SET = get_default_settings(Parser)
    s = _SET.copy()
    s.halt_level = 5
    s.report_level = 5
    s.warning_stream = io.StringIO()
    doc = new_document("/src/index.md", s)
    md = create_md_parser(cfg, DocutilsRenderer)
    if gfm:
        md.disable("linkify")
        md.options["linkify"] = False
    md.options["document"] = doc
    md.render(text)
    return doc


def token_tree(text, cfg, gfm=False):
    md = create_md_parser(cfg, RendererHTML)
    if gfm:
        md.disable("linkify")
        md.options["linkify"] = False
    return SyntaxTreeNode(md.parse(text))


def first_diff(a, b, path=()):
    """path to the first differing skeleton item"""
    if type(a) is not type(b):
        return path, a, b
    if isinstance(a, (list, tuple)):
        for i, (x, y) in enumerate(zip(a, b)):
            d = first_diff(x, y, path + ((a[0] if isinstance(a, tuple) and a and isinstance(a[0], str) else i),))
            if d:
                return d
        if len(a) != len(b):
            return path, ("len", len(a)), ("len", len(b))
        return None
    return None if a == b else (path, a, b)


def compare(text, mode, extra_sig=None):
    cfg = MdParserConfig(**MODES[mode])
    gfm = mode == "gfm"
    ts = tok_skel(token_tree(text, cfg, gfm))
    doc = render_docutils(text, cfg, gfm)
    ds = doc_skel(doc)
    viol = []
    if repr(ts) != repr(ds):
        d = first_diff(ts, ds) or ((), None, None)
        kinds = [p for p in d[0] if isinstance(p, str)]
        viol.append(violation("faithful", {"clause": "faithful", "mode": mode, "where": kinds[-1] if kinds else "top", **(extra_sig or {})},
                              f"[{mode}] doctree skeleton differs from the token tree at {'/'.join(map(str, d[0]))}: token side {d[1]!r}, doctree side {d[2]!r}",
                              text=text, token_skeleton=repr(ts)[:1500], doctree_skeleton=repr(ds)[:1500]))
    unknown = [x for x in _flat(ts) if isinstance(x, str) and x.startswith("?")]
    return viol, ts, ds, unknown


def _flat(x):
    if isinstance(x, (list, tuple)):
        for y in x:
            yield from _flat(y)
    else:
        yield x


FRAG_DEST = "some/target#frag"
INL = ["a", "*e*", "**s**", "`c`", "[l](http://u)", "![i](v)", "<b>", "<http://x>", "\\\n", "\n", "[*n*](w \"t\")", "**[k](z)**", "![*x* `y`](v \"t\")",
       "&amp;", "\\*", "[](http://e)", "****", "$m$", "~~s *e*~~", "*a **b** c*", "`` ` ``", "[a `c` **b**](<u v>)", "\"q\" -- ...",
       "![see [the *manual*](http://u) here](i.png)", "![~~s~~ **b** <i>h</i> &amp;](v)", "[![in](v) link](http://w)",
       "![p](my%20plot.png)", "![p](<a b.png>)", "![p](\u00e9.png \"t\")", "![p](http://x/a%20b.png)", "[l](my%20doc.txt) [m](<a b.txt>)",
       "[`code only`](w) [$m$](w2)", "`  two  ` ``  `tick`  `` ` x `", "[t](some/target#frag) [](other/doc#f2)", "*outer _inner_ tail*", "_*both*_ **__s__**"]
INL_CTX = {
    "para": lambda s: s + "\n",
    "head": lambda s: "## " + s.replace("\\\n", " ").replace("\n", " ") + "\n",
    "item": lambda s: "- " + s.replace("\n", "\n  ") + "\n",
    "quote": lambda s: "> " + s.replace("\n", "\n> ") + "\n",
    "cell": lambda s: "|h|k|\n|:-|-:|\n|" + s.replace("\\\n", " ").replace("\n", " ") + "|x|\n",
    "oitem": lambda s: "3) " + s.replace("\n", "\n   ") + "\n",
}


class InlineSystem(System):
    name = "inlines"

    def __init__(self, tier):
        super().__init__(tier)
        self.i = 2 if tier == "quick" else 3
        self.description = (f"every sequence of <= {self.i} inline constructs from a {len(INL)}-construct pool, inside paragraph / heading / list item / "
                            "ordered item / quote / table cell, x 4 modes")

    def bounds(self):
        return {"inlines": self.i, "pool": len(INL), "contexts": len(INL_CTX)}

    def alphabet(self):
        return INL

    def rule(self):
        return "one case = (inline sequence, context): compared in the 4 modes (transitions); non-trivial = >= 2 inlines"

    def cases(self):
        for n in range(1, self.i + 1):
            for idx in itertools.product(range(len(INL)), repeat=n):
                if n == 3 and self.i == 3 and len(set(idx)) == 1:
                    continue
                for c in INL_CTX:
                    yield [list(idx), c]

    def run(self, case):
        idx, c = case
        text = INL_CTX[c](" ".join(INL[i] for i in idx))
        viol = []
        dig = []
        for mode in MODES:
            v, ts, ds, unk = compare(text, mode, {"ctx": c})
            viol += v
            dig.append(repr(ts))
        return Obs(digest=tuple(dig), nontrivial=len(idx) >= 2, violations=viol[:3], transitions=len(MODES), validated=len(MODES))


def block_pool():
    B = []
    for i in ["a", "*e* `c`", "[l](http://u) ![i](v)"]:
        B += [i + "\n", "# " + i + "\n", "Setext " + i + "\n===\n", "> " + i + "\n", "- " + i + "\n", "* " + i + "\n* two\n", "3) " + i + "\n", "1. " + i + "\n2. two\n",
              "|h|k|\n|:-|-:|\n|" + i + "|x|\n"]
    B += ["|a|b|c|\n|:-:|-|-:|\n|1|2|3|\n", "|a|b|\n|:-|-|\n|*x*|`y`|\n", "|a|b|c|d|\n|-|:-|-|:-:|\n|1|2|3|4|\n|5|6|7|8|\n", "|h|\n|:-:|\n|c|\n|d|\n", "|a|b|c|\n|-|-|-|\n|1|2|\n", "Term *e*\n: def `c`\n\nT2\n: d2\n: d3\n", "Outer\n: first def\n\n  Inner\n  : inner def\n: second def\n\nNext\n: n1\n", "0) zero paren\n1) one\n", ":name *e*: body `c`\n:n2:\n", "$$\nm\n$$\n", "$$m$$ (lbl)\n",
          "a $m$ ~~s *e*~~ b\n", "+++ meta\n", "% com\n", "(tgt)=\n", "\\begin{equation}a\\end{equation}\n", "- [ ] t\n- [x] u\n", "\"q\" -- (c) ...\n",
          "```py\ncode\n```\n", "```JSON attr\n{}\n```\n", "```\nplain\n```\n", "~~~unknownlang\nx\n\ny\n~~~\n", "    ind\n", "    ind1\n\n    ind2\n", "<div>\nh\n</div>\n", "---\n", "***\n", "0. zero\n",
          "- a\n\n  para2\n- b\n", "> q1\n>\n> q2\n", "+ plus\n", "<!-- c -->\n", "[ref]: http://d\n\n[x][ref]\n"]
    return B


BLK = block_pool()
WRAPS = {
    "top": lambda s: s,
    "quote": lambda s: "".join("> " + l + "\n" if l else ">\n" for l in s.split("\n")[:-1]),
    "item": lambda s: "- x\n\n" + "".join("  " + l + "\n" if l else "\n" for l in s.split("\n")[:-1]),
    "oitem": lambda s: "7. x\n\n" + "".join("   " + l + "\n" if l else "\n" for l in s.split("\n")[:-1]),
}


class BlockSystem(System):
    name = "blocks"

    def __init__(self, tier):
        super().__init__(tier)
        self.description = (f"every ordered pair of block constructs from a {len(BLK)}-construct pool" + (" and every triple over a 14-construct sub-pool" if tier != "quick" else "")
                            + ", plain and inside a quote / bullet item / ordered item, x 4 modes")

    def bounds(self):
        return {"blocks": 2 if self.tier == "quick" else 3, "pool": len(BLK), "wrappers": len(WRAPS)}

    def alphabet(self):
        return BLK

    def rule(self):
        return "one case = (block sequence, wrapper): compared in the 4 modes; non-trivial = always"

    def cases(self):
        n = len(BLK)
        for a in range(n):
            for w in WRAPS:
                yield [[a], w]
        for a, b in itertools.product(range(n), repeat=2):
            for w in (("top", "quote") if self.tier == "quick" else WRAPS):
                yield [[a, b], w]
        if self.tier != "quick":
            sub = list(range(0, n, 4))[:14]
            for t in itertools.product(sub, repeat=3):
                yield [list(t), "top"]

    def run(self, case):
        idx, w = case
        text = WRAPS[w]("\n".join(BLK[i] for i in idx))
        viol, dig = [], []
        for mode in MODES:
            v, ts, ds, unk = compare(text, mode, {"ctx": w})
            viol += v
            dig.append(repr(ts))
        return Obs(digest=tuple(dig), violations=viol[:3], transitions=len(MODES), validated=len(MODES))


CONT = {
    "q": lambda s: "".join("> " + l + "\n" if l else ">\n" for l in s.split("\n")[:-1]),
    "b": lambda s: "".join(("- " if i == 0 else "  ") + l + "\n" if l else "\n" for i, l in enumerate(s.split("\n")[:-1])),
    "o": lambda s: "".join(("1. " if i == 0 else "   ") + l + "\n" if l else "\n" for i, l in enumerate(s.split("\n")[:-1])),
    "s": lambda s: "".join(("* " if i == 0 else "  ") + l + "\n" if l else "\n" for i, l in enumerate(s.split("\n")[:-1])),
}


class NestSystem(System):
    name = "nesting"

    def __init__(self, tier):
        super().__init__(tier)
        self.d = 2 if tier == "quick" else 3
        self.description = f"every container chain of depth <= {self.d} over {{quote, - item, 1. item, * item}} around every block construct, followed by a sibling paragraph, x 4 modes"

    def bounds(self):
        return {"depth": self.d, "containers": len(CONT), "blocks": len(BLK)}

    def rule(self):
        return "one case = (container chain, block); non-trivial = depth >= 2"

    def cases(self):
        for d in range(1, self.d + 1):
            for chain in itertools.product(CONT, repeat=d):
                for b in range(len(BLK)):
                    yield ["".join(chain), b]

    def run(self, case):
        chain, b = case
        text = BLK[b]
        for c in reversed(chain):
            text = CONT[c](text)
        text += "\nafter\n"
        viol, dig = [], []
        for mode in MODES:
            v, ts, ds, unk = compare(text, mode, {"ctx": "nest"})
            viol += v
            dig.append(repr(ts))
        return Obs(digest=tuple(dig), nontrivial=len(chain) >= 2, violations=viol[:3], transitions=len(MODES), validated=len(MODES))


class HeadingOrderSystem(System):
    """source order of leaves across section boundaries (sections are flattened, so only ORDER is compared; nesting is C05's)"""

    name = "heading-order"

    def __init__(self, tier):
        super().__init__(tier)
        self.n = 5 if tier == "quick" else 6
        self.description = f"every sequence of <= {self.n} headings of level 1-4, each followed by a marker paragraph: flattened doctree leaves in token order, 2 modes"

    def bounds(self):
        return {"length": self.n, "levels": 4}

    def rule(self):
        return "one case = one level sequence; non-trivial = >= 3 headings"

    def cases(self):
        for n in range(1, self.n + 1):
            for lv in itertools.product((1, 2, 3, 4), repeat=n):
                yield list(lv)

    def run(self, lv):
        text = "".join("#" * l + f" H{i}\n\nP{i} *e*\n\n" for i, l in enumerate(lv))
        viol = []
        for mode in ("cm", "ext"):
            v, ts, ds, unk = compare(text, mode, {"ctx": "headings"})
            viol += v
        return Obs(digest=tuple(lv), nontrivial=len(lv) >= 3, violations=viol[:2], transitions=2, validated=2)


def mask_for_sphinx(sk):
    """non-URL link destinations and the language of un-annotated code blocks are masked on both sides"""
    out = []
    for it in sk:
        if it[0] == "link":
            dest = it[1]
            if isinstance(dest, str) and dest.startswith("XREF:"):
                dest = "LOCAL:" + dest[5:]  # (kept: the Sphinx side must hand the fragment on)
            elif dest == FRAG_DEST or dest == "other/doc#f2":
                dest = "LOCAL:" + dest  # the docutils side of the same links
            elif dest == "XREF" or not (isinstance(dest, str) and dest.startswith(("http:", "https:", "mailto:", "ftp:"))):
                dest = "LOCAL"
            out.append(("link", dest, None if dest == "LOCAL" else it[2], mask_for_sphinx(it[3])))
        elif it[0] == "code":
            out.append(("code", it[1], it[2] if it[2] not in ("", "default", "none") else ""))
        elif it[0] == "table":
            out.append(("table", [("row", [("cell", c[1], mask_for_sphinx(c[2])) for c in r[1]]) for r in it[1]]))
        elif len(it) >= 2 and isinstance(it[-1], list):
            out.append((*it[:-1], mask_for_sphinx(it[-1])))
        else:
            out.append(it)
    return out


class SphinxSystem(System):
    name = "sphinx"
    jobs = 8

    def __init__(self, tier):
        super().__init__(tier)
        self.description = "every block construct alone and every ordered pair over a sub-pool, plain and in a quote, and every inline pair in a paragraph, through the in-process Sphinx front end (all static extensions): skeleton equal to the docutils front end's"

    def prepare(self, ctx):
        self.root = ctx.scratch / "c02sx"
        self.root.mkdir(exist_ok=True)

    def worker_init(self, wid):
        from ..drivers import SphinxDriver

        self.drv = SphinxDriver(self.root / f"w{wid}", conf=f"myst_enable_extensions={ALLEXT!r}\n")

    def bounds(self):
        return {"blocks": 2, "inlines": 2}

    def rule(self):
        return "one case = one document; non-trivial = always"

    def cases(self):
        n = len(BLK)
        for a in range(n):
            for w in ("top", "quote", "item"):
                yield ["b", [a], w]
        sub = list(range(0, n, 2 if self.tier != "quick" else 4))
        for a, b in itertools.product(sub, repeat=2):
            yield ["b", [a, b], "top"]
        for a, b in itertools.product(range(len(INL)), repeat=2):
            yield ["i", [a, b], "para"]

    def run(self, case):
        kind, idx, w = case
        if kind == "b":
            text = WRAPS[w]("\n".join(BLK[i] for i in idx))
        else:
            text = INL_CTX[w](" ".join(INL[i] for i in idx))
        if not hasattr(self, "drv"):
            self.worker_init(99)
        cfg = MdParserConfig(enable_extensions=ALLEXT)
        ddoc = render_docutils("# Title\n\n" + text, cfg)
        try:
            sdoc, warn = self.drv.read("t", "# Title\n\n" + text, resolve=False)
        except Exception as exc:  # totality is C01's clause
            return Obs(digest=("exc", type(exc).__name__), nontrivial=False, stats={"sphinx_raised": 1})
        a = mask_for_sphinx(doc_skel(ddoc))
        b = mask_for_sphinx(doc_skel(sdoc, sphinx=True))
        viol = []
        if repr(a) != repr(b):
            d = first_diff(a, b) or ((), None, None)
            kinds = [p for p in d[0] if isinstance(p, str)]
            viol.append(violation("backends-agree", {"clause": "backends-agree", "where": kinds[-1] if kinds else "top"},
                                  f"Sphinx and docutils doctrees differ at {'/'.join(map(str, d[0]))}: docutils {d[1]!r}, Sphinx {d[2]!r}",
                                  text=text, docutils=repr(a)[:1500], sphinx=repr(b)[:1500]))
        return Obs(digest=repr(b), violations=viol, transitions=2, validated=1)


def systems(tier):
    return [InlineSystem(tier), BlockSystem(tier), NestSystem(tier), HeadingOrderSystem(tier), SphinxSystem(tier)]
