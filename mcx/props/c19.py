"""C19 — inventory filtering implements exactly the documented wildcard semantics.

Systems (DESIGN.md §4 C19):
  pairs     every (pattern, name) pair over an alphabet with '*', '\\' and regex metacharacters
  cache     > 256 distinct patterns visited, evicted and revisited within one process
  filter    generated inventories x every filter quadruple, native and Sphinx representation
  links     documents with one inv: link in every spelling (docutils front end)
"""

from __future__ import annotations

import itertools
import posixpath

from ..engine import Obs, System, violation
from ..models import wildcard
from ..models.invfile import make_v2

PROPERTY_ID = "C19"
LEVEL = "model_checking"
ASSUMPTIONS = [
    "reference matcher = mcx/models/wildcard.py written from the docstring (left-to-right: '\\*' literal star, '*' any run, else itself)",
    "names containing line breaks are not enumerated",
    "empty path parts in inv: links (inv::x#t) are not generated (whether '' is 'omitted' is unspecified)",
    "Sphinx front end of the inv: link clause is exercised by the Sphinx system only when listed in the evidence",
]

from myst_parser import inventory as inv  # noqa: E402


def _words(alpha, n):
    for length in range(n + 1):
        for tup in itertools.product(alpha, repeat=length):
            yield "".join(tup)


class PairSystem(System):
    name = "pairs"

    def __init__(self, tier, name="pairs", alpha="aA*\\.+"):
        super().__init__(tier)
        self.name = name
        if tier == "quick":
            self.alpha, self.np, self.nn = alpha, 5, 4
        else:
            self.alpha, self.np, self.nn = alpha, 6, 4
        self.names = list(_words(self.alpha, self.nn))
        self.description = (
            f"all patterns of length <= {self.np} x all names of length <= {self.nn} over {self.alpha!r} "
            "(+ None pattern, + case/duplicate revisits of each pattern in the same process)"
        )

    def bounds(self):
        return {"pattern_len": self.np, "name_len": self.nn, "names": len(self.names)}

    def alphabet(self):
        return list(self.alpha)

    def rule(self):
        return ("one case = one pattern matched against every name (transitions = pairs); "
                "non-trivial = the pattern matches at least one and not all names")

    def cases(self):
        yield None
        yield from _words(self.alpha, self.np)

    def run(self, pat):
        viol = []
        nmatch = 0
        variants = [pat]
        if pat is not None:
            variants += [pat.swapcase(), pat]
        bits = []
        for p in variants:
            for name in self.names:
                got = inv.match_with_wildcard(name, p)
                exp = wildcard.match(name, p)
                if p is pat:
                    nmatch += got
                    bits.append(got)
                if got != exp and len(viol) < 3:
                    viol.append(
                        violation(
                            "match",
                            {"clause": "match", "trailing_backslash": bool(p and p.endswith("\\")),
                             "expected": exp},
                            f"match_with_wildcard({name!r}, {p!r}) = {got}, documented semantics give {exp}",
                            pattern=p, name=name,
                        )
                    )
        n = len(self.names)
        return Obs(
            digest=h(bits),
            nontrivial=0 < nmatch < n,
            violations=viol,
            transitions=len(variants) * n,
            validated=len(variants) * n,
        )


def h(bits):
    import hashlib

    return hashlib.blake2b(bytes(bits), digest_size=8).hexdigest()


class CacheSystem(System):
    """Patterns revisited after > 256 other patterns went through the regex cache."""

    name = "cache"
    description = "pools of 300-600 distinct patterns walked forwards, backwards and interleaved in one process (cache fill, eviction, refill)"

    def bounds(self):
        return {"pool": 600, "orders": 6}

    def rule(self):
        return "one case = one visiting order over the pool; every visit is compared with the reference matcher"

    def cases(self):
        for order in range(6):
            yield order

    def run(self, order):
        pool = [p for p in _words("ab*\\.", 5)][:: 5][:600]
        if order == 0:
            seq = pool + pool
        elif order == 1:
            seq = pool + pool[::-1]
        elif order == 2:
            seq = [p for pair in zip(pool, pool[::-1]) for p in pair] * 2
        elif order == 3:
            seq = pool[:300] + pool[:300] + pool[300:] + pool[:300]
        elif order == 4:
            seq = [p for i in range(0, 600, 2) for p in (pool[i], pool[i + 1], pool[i])] + pool
        else:
            seq = pool[::-1] + pool[::3] + pool
        names = ["", "a", "ab", "a*", "a\\", "ba.", "abab", "*", "\\*", "a.b"]
        viol = []
        res = []
        for p in seq:
            for nme in names:
                got = inv.match_with_wildcard(nme, p)
                res.append(got)
                exp = wildcard.match(nme, p)
                if got != exp and len(viol) < 3:
                    viol.append(
                        violation("match", {"clause": "match-after-cache-traffic",
                                            "trailing_backslash": p.endswith("\\"), "expected": exp},
                                  f"after cache traffic match_with_wildcard({nme!r}, {p!r}) = {got}, expected {exp}",
                                  pattern=p, name=nme, order=order)
                    )
        info = inv._create_regex.cache_info() if hasattr(inv._create_regex, "cache_info") else None
        return Obs(digest=(order, h(res)), violations=viol, transitions=len(seq) * len(names),
                   validated=len(seq) * len(names),
                   stats={"cache_maxsize": (info.maxsize or 0) if info else 0})


# ------------------------------------------------------------------------------------------------
INVS = {
    "key": {
        "name": "P1", "version": "1", "base_url": "https://a.org/r",
        "objects": {
            "std": {"label": {"n": {"loc": "l1", "text": "T"}, "n*x": {"loc": "l2", "text": None}, "n.x": {"loc": "l3", "text": None}},
                    # (a display text that is spelled out and EQUALS the name stays a text in both representations)
                    "term": {"n": {"loc": "l4", "text": None}, "m": {"loc": "l5", "text": "m"}}},
            "py": {"label": {"n": {"loc": "l6", "text": None}},
                   "func": {"n.x": {"loc": "l7", "text": "F"}, "nax": {"loc": "l8", "text": None}},
                   "function": {"n": {"loc": "l9", "text": None}}, "fun": {"n": {"loc": "l10", "text": None}},
                   # (Sphinx itself has a type with a colon: rst:directive:option)
                   "class": {"n": {"loc": "l11", "text": None}}, "data:class": {"n": {"loc": "l12", "text": None}, "m": {"loc": "l1", "text": None}}},
        },
    },
    "ke*": {
        "name": "P2", "version": "", "base_url": None,
        "objects": {
            "std": {"label": {"n": {"loc": "m1", "text": None}, "zz": {"loc": "m2", "text": None}}},
            "p*": {"func": {"n*x": {"loc": "m3", "text": None}}},
        },
    },
}
MENU = {
    # (the empty pattern is a pattern, not an omitted one: it matches only an empty coordinate)
    "invs": [None, "key", "*", "ke*", "*y", "ke\\*", "zz", ""],
    "domains": [None, "std", "*", "p*", "*d", "p\\*", "zz", ""],
    "otypes": [None, "label", "*", "f*", "*m", "\\*", "zz", "func", "fun", "", "class", "*:class"],
    # (types 'fun', 'func', 'function' exist: a pattern must match its coordinate in FULL)
    "targets": [None, "n", "*", "n*", "*x", "n\\*x", "zz", "n.x", ""],
}


def model_filter(data, invs, domains, otypes, targets):
    return [
        (i, d, t, n, item["loc"], item["text"])
        for i, idata in data.items()
        if wildcard.match(i, invs)
        for d, ddata in idata["objects"].items()
        if wildcard.match(d, domains)
        for t, tdata in ddata.items()
        if wildcard.match(t, otypes)
        for n, item in tdata.items()
        if wildcard.match(n, targets)
    ]


class FilterSystem(System):
    name = "filter"
    description = "2 generated inventories (names with '*' and '.', a type with ':') x every filter quadruple from an 8/8/12/9 menu (incl. the empty pattern); native and Sphinx representation"

    def bounds(self):
        return {"quadruples": len(MENU["invs"]) * len(MENU["domains"]) * len(MENU["otypes"]) * len(MENU["targets"])}

    def alphabet(self):
        return MENU

    def rule(self):
        return "one case = one (invs, domains, otypes, targets) quadruple; non-trivial = selects >= 1 and not all entries"

    def cases(self):
        for q in itertools.product(MENU["invs"], MENU["domains"], MENU["otypes"], MENU["targets"]):
            yield list(q)

    def run(self, q):
        i, d, t, n = q
        viol = []
        exp = model_filter(INVS, i, d, t, n)
        got = [
            (m.inv, m.domain, m.otype, m.name, m.loc, m.text)
            for m in inv.filter_inventories(INVS, invs=i, domains=d, otypes=t, targets=n)
        ]
        if got != exp:
            viol.append(
                violation("filter", {"clause": "filter", "repr": "native"},
                          f"filter_inventories{tuple(q)} returned {got}, expected {exp}", quadruple=q)
            )
        sph = {k: inv.to_sphinx(v) for k, v in INVS.items()}
        got_s = [
            (m.inv, m.domain, m.otype, m.name, m.loc, m.text)
            for m in inv.filter_sphinx_inventories(sph, invs=i, domains=d, otypes=t, targets=n)
        ]
        if got_s != exp:
            viol.append(
                violation("filter", {"clause": "filter", "repr": "sphinx"},
                          f"filter_sphinx_inventories{tuple(q)} returned {got_s}, expected {exp}", quadruple=q)
            )
        # the InvMatch must carry the inventory's project/version/base_url
        for m in inv.filter_inventories(INVS, invs=i, domains=d, otypes=t, targets=n):
            src = INVS[m.inv]
            if (m.project, m.version, m.base_url) != (src["name"], src["version"], src["base_url"]):
                viol.append(
                    violation("filter", {"clause": "filter", "repr": "native-meta"},
                              f"match {m} does not carry its inventory's project/version/base_url", quadruple=q)
                )
                break
        total = len(model_filter(INVS, None, None, None, None))
        return Obs(digest=tuple(exp), nontrivial=0 < len(exp) < total, violations=viol, transitions=2, validated=2)


class CliSystem(System):
    """myst-inv applies the same filters: its output is the model's selection, regrouped"""

    name = "cli"
    description = "the 'key' inventory written as a v2 file x every (domain, type, name, location) filter of the myst-inv command line: printed objects == model selection"

    def prepare(self, ctx):
        from ..models.invfile import make_v2

        self.path = ctx.scratch / "c19cli.inv"
        lines = []
        for d, dd in INVS["key"]["objects"].items():
            for t, td in dd.items():
                for n, item in td.items():
                    lines.append(f"{n} {d}:{t} 1 {item['loc']} {item['text'] or '-'}")
        self.path.write_bytes(make_v2("P1", "1", lines))

    def bounds(self):
        return {"quadruples": (len(MENU["domains"]) - 1) * (len(MENU["otypes"]) - 1) * (len(MENU["targets"]) - 1) * 5}

    def rule(self):
        return "one case = (domain, type, name, loc) arguments (None = option not given); non-trivial = selects >= 1 and not all entries"

    def cases(self):
        locs = [None, "l1", "l*", "*1", "zz"]
        for q in itertools.product(MENU["domains"], MENU["otypes"], MENU["targets"], locs):
            yield list(q)

    def run(self, q):
        import contextlib
        import io
        import json

        d, t, n, loc = q
        args = [str(self.path), "-f", "json"]
        for flag, val in (("-d", d), ("-o", t), ("-n", n), ("-l", loc)):
            if val is not None:
                args += [flag, val]
        out = io.StringIO()
        with contextlib.redirect_stdout(out):
            inv.inventory_cli(args)
        got = json.loads(out.getvalue())["objects"]
        exp: dict = {}
        for _, dd, tt, nn, lc, tx in model_filter({"": INVS["key"]}, None, d, t, n):
            if loc and not wildcard.match(lc, loc):  # (an empty --loc is documented as "no filter")
                continue
            exp.setdefault(dd, {}).setdefault(tt, {})[nn] = {"loc": lc, "text": tx}
        viol = []
        if got != exp:
            viol.append(violation("filter", {"clause": "filter", "repr": "cli"}, f"myst-inv {args[1:]} printed {got}, expected {exp}", quadruple=q))
        total = len(model_filter({"": INVS["key"]}, None, None, None, None))
        size = sum(len(x) for dd in exp.values() for x in dd.values())
        return Obs(digest=json.dumps(exp, sort_keys=True), nontrivial=0 < size < total, violations=viol, transitions=1, validated=1)


class AcrossDocumentsSystem(System):
    """the same inv: link in two documents of ONE process whose inventories differ: each is resolved against its own document's inventories"""

    name = "links-across-documents"
    fork_per_case = True
    chunk = 1
    description = ("every ordered pair of 3 inventory settings (same keys, other files / base URLs / missing key) x 6 links: the second document must come out "
                   "as when it is parsed first in a fresh process")

    LINKS = ["<inv:#sec-one>", "<inv:k1#sec-one>", "[t](inv:k1:std:label#sec*)", "<inv:#nomatch>", "<inv:k2#only2>", "[](inv:#mod.func)"]

    def prepare(self, ctx):
        self.dir = ctx.scratch / "c19across"
        self.dir.mkdir(exist_ok=True)
        files = {}
        for key, (base, proj, ver, lines) in LINK_INVS.items():
            if key == "k1b":
                continue
            p = self.dir / f"{key}.inv"
            p.write_bytes(make_v2(proj, ver, [" ".join(e) for e in lines]))
            files[key] = str(p)
        alt = self.dir / "alt.inv"
        alt.write_bytes(make_v2("ALT", "9", ["sec-one std:label -1 alt.html#$ Alt section", "only2 std:term -1 alt.html#t -"]))
        self.settings = [
            {"k1": ["https://a.org/r/", files["k1"]], "k2": ["https://b.org", files["k2"]]},
            {"k1": ["https://mirror.org/m/", str(alt)], "k2": ["https://b.org", files["k2"]]},  # same key, another file and base URL
            {"k2": ["https://b2.org/x/", files["k2"]]},  # k1 missing
        ]

    def bounds(self):
        return {"settings": 3, "links": len(self.LINKS)}

    def rule(self):
        return "one case = (first setting, second setting, link) in a fresh process; non-trivial = the two settings differ"

    def cases(self):
        for a in range(3):
            for b in range(3):
                for l in range(len(self.LINKS)):
                    yield [a, b, l]

    def render(self, setting, link):
        from ..drivers import docutils_doctree

        doc, warn = docutils_doctree(f"PRE {link} POST\n", {"myst_inventories": setting})
        return doc.pformat() + "\n" + warn

    def run(self, case):
        from .c15 import in_child

        a, b, l = case
        link = self.LINKS[l]
        fresh = in_child(self.render, self.settings[b], link)
        self.render(self.settings[a], link)
        got = self.render(self.settings[b], link)
        viol = []
        if got != fresh:
            viol.append(violation("link-sequence", {"clause": "link-across-documents"},
                                  f"{link} under inventory setting #{b} after a document with setting #{a}: {got!r}, parsed first in a fresh process: {fresh!r}"))
        return Obs(digest=(a, b, l, hash(got) % 10000), nontrivial=a != b, violations=viol, transitions=2, validated=1)


class BigInventorySystem(System):
    """an inventory that is read in several chunks, with non-ASCII names and texts: links into it resolve as into a small one"""

    name = "links-big-inventory"
    chunk = 1
    description = "a 4000-entry inventory of CJK / accented names (decompressed in several chunks) x links to its first, middle and last entries and a missing one"

    N = 4000

    def row(self, i):
        a, b, c = chr(0x4E00 + (i * 7919) % 20000), chr(0x3041 + (i * 31) % 80), chr(0xC0 + (i * 13) % 60)
        return f"n{i}{a}{b}", f"d{i}.html#{c}{i}", f"T{c}{a}{b}{i} " + a * (i % 7)

    def prepare(self, ctx):
        self.dir = ctx.scratch / "c19big"
        self.dir.mkdir(exist_ok=True)
        lines = []
        for i in range(self.N):
            name, loc, text = self.row(i)
            lines.append(f"{name} std:label -1 {loc} {text}")
        self.path = self.dir / "big.inv"
        self.path.write_bytes(make_v2("Big", "1", lines, level=1))

    def bounds(self):
        return {"entries": self.N}

    def rule(self):
        return "one case = one link; non-trivial = the entry exists"

    def cases(self):
        yield from [0, 1, self.N // 2, self.N - 2, self.N - 1, -1]

    def run(self, i):
        from docutils import nodes

        from ..drivers import docutils_doctree

        name = self.row(i)[0] if i >= 0 else "missing-entry"
        doc, warn = docutils_doctree(f"PRE <inv:big#{name}> POST\n", {"myst_inventories": {"big": ["https://big.org/", str(self.path)]}})
        refs = [r.get("refuri") for r in doc.findall(nodes.reference)]
        viol = []
        if i >= 0:
            exp = "https://big.org/" + self.row(i)[1]
            if refs != [exp] or "myst.i" in warn:
                viol.append(violation("link", {"clause": "link", "form": "auto", "kind": "big-inventory"},
                                      f"<inv:big#{name}>: references {refs}, expected [{exp!r}]; warnings {warn.strip()[:300]!r}"))
        elif refs or "myst.iref_missing" not in warn:
            viol.append(violation("link", {"clause": "link", "form": "auto", "kind": "big-inventory-missing"}, f"missing entry: references {refs}, warnings {warn.strip()[:300]!r}"))
        return Obs(digest=(i, tuple(refs)), nontrivial=i >= 0, violations=viol)


# ------------------------------------------------------------------------------------------------
LINK_INVS = {
    # key: (base_url, project, version, [(name, domain:type, priority, location, display name)])
    "k1": ("https://a.org/r/", "P1", "1.0", [
        ("sec-one", "std:label", "-1", "page.html#$", "Section One"),
        ("sec*star", "std:label", "-1", "s.html#star", "-"),
        ("sp ace", "std:label", "-1", "sp.html", "-"),
        ("same-loc", "std:label", "-1", "index.html", "-"),
        ("same-loc", "std:doc", "-1", "index.html", "Index page"),
        ("mod.func", "py:function", "1", "api.html#$", "-"),
        ("mod.func", "py:class", "1", "api.html#cls", "-"),
    ]),
    "k3": ("https://c.org/3", "P3", "3", [
        ("deep", "std:label", "-1", "sub/x.html#$", "-"),
        ("top3", "std:label", "-1", "index.html", "Top"),
    ]),
    "k2": ("https://b.org", "P2", "", [
        ("sec-one", "std:label", "-1", "other.html#$", "Two"),
        ("only2", "std:term", "-1", "t.html", "-"),
        ("same-loc", "std:label", "-1", "index.html", "-"),
    ]),
}
# a second key for the SAME file as k1, registered under another base URL (a mirror): entries are shared, the base URL is per key
LINK_INVS["k1b"] = ("https://mirror.org/m/", *LINK_INVS["k1"][1:])
L_INVS = [None, "k1", "k2", "k3", "k*", "zz", "k1b"]
L_DOMS = [None, "std", "py", "*"]
L_TYPES = [None, "label", "func*", "*"]
L_TARGETS = ["sec-one", "mod.func", "sec*", "sec\\*star", "nomatch", "*", "sp ace", "only2", "deep", "top3", "same-loc", "", "<nofrag>"]
FORMS = ["auto", "explicit", "empty", "title"]


def link_model():
    data = {}
    for key, (base, proj, ver, entries) in LINK_INVS.items():
        objs = {}
        for name, typ, _prio, loc, disp in entries:
            dom, ot = typ.split(":")
            if loc.endswith("$"):
                loc = loc[:-1] + name
            objs.setdefault(dom, {}).setdefault(ot, {})[name] = {"loc": loc, "text": None if disp == "-" else disp}
        data[key] = {"name": proj, "version": ver, "base_url": base, "objects": objs}
    return data


class LinkSystem(System):
    name = "links-docutils"
    description = "documents with one inv: link: inventory/domain/type/target patterns x 4 text forms, docutils front end, inventories loaded from generated v2 files"

    def prepare(self, ctx):
        self.dir = ctx.scratch / "c19inv"
        self.dir.mkdir(exist_ok=True)
        self.setting = {}
        for key, (base, proj, ver, lines) in LINK_INVS.items():
            p = self.dir / f"{'k1' if key == 'k1b' else key}.inv"
            p.write_bytes(make_v2(proj, ver, [" ".join(e) for e in lines]))
            self.setting[key] = [base, str(p)]
        self.model = link_model()

    def bounds(self):
        return {"links": len(L_INVS) * len(L_DOMS) * len(L_TYPES) * len(L_TARGETS) * len(FORMS)}

    def alphabet(self):
        return {"invs": L_INVS, "domains": L_DOMS, "types": L_TYPES, "targets": L_TARGETS, "forms": FORMS}

    def rule(self):
        return "one case = one document with one inv: link; non-trivial = the link matches >= 1 entry"

    def cases(self):
        for q in itertools.product(L_INVS, L_DOMS, L_TYPES, L_TARGETS, FORMS):
            i, d, t, n, form = q
            if form != "auto" and "\\" in n:
                continue  # backslash escapes are processed by Markdown in inline destinations
            if n == "<nofrag>" and i is None and d is None and t is None:
                continue  # a bare 'inv:' has neither path nor target
            yield list(q)

    @staticmethod
    def spell(i, d, t, n):
        parts = [i, d, t]
        while parts and parts[-1] is None:
            parts.pop()
        path = ":".join("*" if p is None else p for p in parts)
        if n == "<nofrag>":  # no '#target' at all: the name pattern is empty and matches no entry
            return f"inv:{path}"
        return f"inv:{path}#{n.replace(' ', '%20')}"

    def run(self, q):
        from docutils import nodes

        from ..drivers import docutils_doctree, parse_warnings

        i, d, t, n, form = q
        dest = self.spell(i, d, t, n)
        if form == "auto":
            link = f"<{dest}>"
        elif form == "explicit":
            link = f"[my *text*]({dest})"
        elif form == "empty":
            link = f"[]({dest})"
        else:
            link = f'[my *text*]({dest} "a title")'
        text = f"PRE {link} POST\n"
        doc, warn = docutils_doctree(text, {"myst_inventories": self.setting})
        ws = parse_warnings(warn)
        exp = model_filter(self.model, i, d, t, "" if n == "<nofrag>" else n)
        viol = []
        sig = {"clause": "link", "form": form}
        refs = [r for r in doc.findall(nodes.reference)]
        missing = [w for w in ws if w["tag"] == "myst.iref_missing"]
        ambig = [w for w in ws if w["tag"] == "myst.iref_ambiguous"]
        others = [w for w in ws if w["tag"] not in ("myst.iref_missing", "myst.iref_ambiguous")]

        def bad(kind, msg):
            viol.append(violation("link", {**sig, "kind": kind}, f"{link}: {msg}", text=text,
                                  warnings=warn, doctree=doc.pformat()))

        if others:
            bad("unexpected-warning", f"unexpected warnings {others}")
        para = doc.astext()
        if "PRE" not in para or "POST" not in para:
            bad("context-lost", "surrounding text lost")
        if len(exp) == 0:
            if len(missing) != 1 or ambig:
                bad("missing-warning-count", f"expected exactly one iref_missing warning, got {len(missing)} (+{len(ambig)} ambiguous)")
            if refs:
                bad("missing-but-reference", "no entry matches but a reference was produced")
        else:
            if missing:
                bad("spurious-missing", "iref_missing although the model finds matches")
            if len(exp) > 1 and len(ambig) != 1:
                bad("ambiguous-warning-count", f"{len(exp)} matches: expected exactly one iref_ambiguous warning, got {len(ambig)}")
            if len(exp) == 1 and ambig:
                bad("spurious-ambiguous", "iref_ambiguous for a single match")
            if len(refs) != 1:
                bad("reference-count", f"expected one reference node, got {len(refs)}")
            else:
                ref = refs[0]
                key, dom, ot, name, loc, disp = exp[0]
                base = self.model[key]["base_url"]
                uri = posixpath.join(base, loc) if base else loc
                if ref.get("refuri") != uri:
                    bad("uri", f"refuri {ref.get('refuri')!r}, expected {uri!r} (first match in inventory order: {exp[0]})")
                txt = ref.astext()
                if form in ("explicit", "title"):
                    if txt != "my text" or not list(ref.findall(nodes.emphasis)):
                        bad("explicit-text", f"explicit text not kept: {txt!r}")
                else:
                    want = disp if disp else name
                    if txt != want:
                        bad("implicit-text", f"link text {txt!r}, expected {want!r}")
                if form == "title" and ref.get("reftitle") != "a title":
                    bad("title", f"reftitle {ref.get('reftitle')!r}")
        for w in missing + ambig:
            if w["line"] != 1:
                bad("warning-line", f"warning at line {w['line']}, link is on line 1")
        return Obs(digest=(len(exp), exp[0] if exp else None, len(missing), len(ambig)),
                   nontrivial=len(exp) > 0, violations=viol[:3])


class MultiLinkSystem(LinkSystem):
    """Several inv: links in ONE document: each link must be resolved as if it were alone (inventories are loaded once per document)."""

    name = "links-sequence"
    description = ("documents with 2 (thorough: up to 3) inv: links from a 10-link menu that restricts inventory / domain / type differently; "
                   "every link's reference, text and warnings must equal those of the same link alone in a document")

    MENU = [
        ["k2", None, None, "only2", "auto"], ["k1", None, None, "sec-one", "auto"], [None, None, None, "sec-one", "auto"],
        ["k2", None, None, "sec-one", "empty"], ["k1", "py", None, "mod.func", "auto"], [None, "std", "label", "sec*", "auto"],
        ["zz", None, None, "sec-one", "auto"], ["k*", "std", None, "nomatch", "auto"], [None, None, "func*", "mod.func", "explicit"],
        ["k1", None, None, "sp ace", "auto"],
    ]

    def bounds(self):
        return {"links_per_document": 2 if self.tier == "quick" else 3, "menu": len(self.MENU)}

    def alphabet(self):
        return self.MENU

    def rule(self):
        return "one case = one ordered tuple of links; non-trivial = at least one link matches an entry"

    def cases(self):
        n = len(self.MENU)
        for a in range(n):
            for b in range(n):
                yield [a, b]
        if self.tier != "quick":
            for a in range(n):
                for b in range(n):
                    for c in range(n):
                        yield [a, b, c]

    def link_text(self, q):
        i, d, t, n, form = q
        dest = self.spell(i, d, t, n)
        return {"auto": f"<{dest}>", "explicit": f"[my *text*]({dest})", "empty": f"[]({dest})"}[form]

    def observe(self, links):
        from docutils import nodes

        from ..drivers import docutils_doctree, parse_warnings

        text = "".join(f"P{j} {self.link_text(q)} E{j}\n\n" for j, q in enumerate(links))
        doc, warn = docutils_doctree(text, {"myst_inventories": self.setting})
        ws = parse_warnings(warn)
        out = []
        paras = [p for p in doc.findall(nodes.paragraph) if p.astext().startswith("P")]
        for j, q in enumerate(links):
            para = paras[j] if j < len(paras) else None
            refs = [(r.get("refuri"), r.astext()) for r in para.findall(nodes.reference)] if para is not None else None
            line = 1 + 2 * j
            out.append((refs, sorted((w["tag"], w["level"]) for w in ws if w["line"] == line)))
        return text, out, warn

    def run(self, idxs):
        links = [self.MENU[i] for i in idxs]
        text, together, warn = self.observe(links)
        viol = []
        nt = False
        for j, q in enumerate(links):
            _, alone, _ = self.observe([q])
            nt = nt or bool(alone[0][0])
            if together[j] != alone[0]:
                viol.append(violation("link-sequence", {"clause": "link-sequence", "position": j},
                                      f"link #{j} {self.link_text(q)} gives {together[j]} after {[self.link_text(x) for x in links[:j]]}, "
                                      f"but {alone[0]} when alone in a document", text=text, warnings=warn))
        return Obs(digest=repr(together), nontrivial=nt, violations=viol[:2], transitions=len(links), validated=len(links))


def systems(tier):
    return [PairSystem(tier), PairSystem(tier, "pairs-braces", "a2*{},"), CacheSystem(tier), FilterSystem(tier), CliSystem(tier), LinkSystem(tier), MultiLinkSystem(tier),
            AcrossDocumentsSystem(tier), BigInventorySystem(tier)]


def vacuity(results):
    errs = []
    for r in results:
        if r.name == "cache" and r.stats.get("cache_maxsize", 0) >= 600 * 6:
            errs.append("cache: pool no larger than the regex cache (no eviction exercised)")
    return errs
