"""C18 — inventory loading agrees with Sphinx and is independent of stream chunking.

Systems (DESIGN.md §4 C18):
  agree      every sequence of <= k entry lines from a pool (+ line mutations) x {v1, v2} x
             {final newline, none} x project/version variants: myst_parser.inventory.load vs
             sphinx.util.inventory.InventoryFile.loads on the same bytes; round trip to_sphinx/from_sphinx
  headers    header-line variants (CRLF, trailing blanks, unknown version, not compressed, truncated)
  chunks     for small files: EVERY way of delivering the bytes through read() with <= c cut points
             and every uniform chunk size; result must equal the single-read result
"""

from __future__ import annotations

import io
import itertools
import sys
import zlib

from ..engine import Obs, System, h64, violation
from ..models.invfile import make_v1, make_v2

PROPERTY_ID = "C18"
LEVEL = "model_checking"
ASSUMPTIONS = [
    "reference model = Sphinx 8.2.3 sphinx.util.inventory.InventoryFile.loads(bytes, uri='') on the same bytes",
    "display names '' and '-' both mean 'no display name' (MyST stores None, Sphinx stores the raw field)",
    "if Sphinx raises on a file, MyST may raise or return the entries of the well-formed lines only",
    "lines containing exotic separators (\\r inside a line, \\x0b, \\x0c, \\x1c-\\x1e, \\x85, U+2028/9) are not generated",
    "round trip asserted for inventories with >= 1 object and base_url None",
    "a read() on the stream returns at most the requested size; zero-length reads only at EOF",
]

from myst_parser import inventory as mi  # noqa: E402
from sphinx.util.inventory import InventoryFile  # noqa: E402

V2_POOL = [
    "a py:function 1 p.html#$ -",
    "a b std:label -1 l.html#a-b Disp Name",
    "mod py:module 0 m.html#module-$ -",
    "mod py:module 0 other.html#x -",
    "a py:function 1 q.html#other Second",
    "a py:function 1 p.html#$ -",
    "A std:label -1 L.html#A Upper",
    "a std:label -1 l.html#a lower",
    "t std:term -1 g.html#term-t -",
    "x nodomain 1 n.html -",
    "y z:w:v 1 n.html#$ D",
    "é std:label 1 l.html#é Ünï",
    "mod std:label -1 l.html#mod Module label",
    "mod c:macro 1 c.html#c.mod -",
    "same py:class 1 c.html#$ same",
    "two words std:label -1 t.html#tw two words",
    "$HOME std:envvar 1 u.html#envvar-$$ -",
    "HTTP status 404 errors std:label -1 e.html#$ -",  # Sphinx reads name 'HTTP', a colon-less type 'status', priority 404: skipped  # only the LAST '$' is the name shorthand
]
V2_MUT = [
    "a py:function 1",
    "a  py:function   1  p.html#$   -",
    "",
    "a py:function x p.html -",
    "a py:function 1  Disp",
    "# comment",
    " lead py:function 1 l -",
    "a py:function 1 l - ",
]
V1_POOL = [
    "a mod p.html",
    "a func q.html",
    "b class r.html",
    "a mod z.html",
    "a b func s.html",
    "m mod u.html extra",
]
V1_MUT = ["bad", "x y", ""]
PROJ = [("P", "1.0"), ("", ""), ("My Proj", "1.0 beta")]


def sphinx_view(b: bytes):
    inv = InventoryFile.loads(b, uri="")
    return {
        t: {n: (i.project_name, i.project_version, i.uri, i.display_name if i.display_name not in ("", "-") else None) for n, i in ns.items()}
        for t, ns in inv.data.items()
    }


def myst_view(inv):
    out = {}
    for dom, types in inv["objects"].items():
        for typ, names in types.items():
            for n, item in names.items():
                out.setdefault(f"{dom}:{typ}", {})[n] = (inv["name"], inv["version"], item["loc"], item["text"] or None)
    # drop empty type tables (setdefault artefacts carry no entry)
    return {k: v for k, v in out.items() if v}


def load_myst(b: bytes):
    return mi.load(io.BytesIO(b))


def build(case) -> bytes:
    ver, lines, final_nl, pv = case[:4]
    level = case[4] if len(case) > 4 else 9
    proj, version = PROJ[pv]
    if ver == 2:
        return make_v2(proj, version, lines, final_newline=final_nl, level=level)
    return make_v1(proj, version, lines, final_newline=final_nl)


class AgreeSystem(System):
    name = "agree"

    def __init__(self, tier):
        super().__init__(tier)
        self.k = 2 if tier == "quick" else 3
        self.description = (
            f"all sequences of <= {self.k} lines from the v2 pool ({len(V2_POOL)} entries + {len(V2_MUT)} mutations) and the v1 pool "
            f"({len(V1_POOL)} + {len(V1_MUT)}) x final newline present/absent x {len(PROJ)} project/version variants"
        )

    def bounds(self):
        return {"entries": self.k}

    def alphabet(self):
        return {"v2": V2_POOL + V2_MUT, "v1": V1_POOL + V1_MUT, "project_version": PROJ}

    def rule(self):
        return "one case = one inventory file; non-trivial = Sphinx's loader returns >= 1 object"

    def cases(self):
        for ver, pool in ((2, V2_POOL + V2_MUT), (1, V1_POOL + V1_MUT)):
            for k in range(self.k + 1):
                for lines in itertools.product(pool, repeat=k):
                    for final_nl in (True, False):
                        if k == 0 and not final_nl:
                            continue
                        for pv in range(len(PROJ)):
                            if k == self.k and self.k >= 3 and pv == 2:
                                continue  # the third header variant is exercised up to k-1
                            yield [ver, list(lines), final_nl, pv]

    def run(self, case):
        b = build(case)
        ver, lines, final_nl, pv = case
        viol = []
        feat = {
            "no_final_newline": not final_nl and bool(lines),
            "dup_py_module": sum(1 for l in lines if " py:module " in l) > 1,
            "version": ver,
        }
        try:
            s, serr = sphinx_view(b), None
        except Exception as exc:
            s, serr = None, type(exc).__name__
        try:
            raw = load_myst(b)
            m, merr = myst_view(raw), None
        except (ValueError, zlib.error, UnicodeDecodeError) as exc:
            raw, m, merr = None, None, type(exc).__name__
        if s is not None:
            if m is None:
                viol.append(violation("agree", {"clause": "agree", "kind": "myst-raises", **feat},
                                      f"Sphinx loads the file, MyST raises {merr}", lines=lines, bytes=b))
            elif m != s:
                diff = _diff(s, m)
                viol.append(violation("agree", {"clause": "agree", "kind": diff[0], **feat},
                                      f"entries differ from Sphinx's loader: {diff[1]}", lines=lines, sphinx=s, myst=m))
        else:
            # Sphinx refuses: MyST must raise or return only entries of well-formed lines
            if m is not None:
                good = _wellformed_only(case)
                if good is not None and m != good:
                    # the load did not fail, so malformed lines were skipped: every well-formed entry must be there, and nothing else
                    viol.append(violation("agree", {"clause": "malformed-corrupts", "kind": "lost" if _subset(m, good) else "invented", **feat},
                                          f"Sphinx raises {serr}; MyST loaded the file but its entries {m} are not those of the well-formed lines {good}",
                                          lines=lines, myst=m, wellformed=good))
        # round trip
        if raw is not None and m:
            sp = mi.to_sphinx(raw)
            back = mi.from_sphinx(sp)
            if back != raw:
                viol.append(violation("roundtrip", {"clause": "roundtrip", "dir": "from(to(inv))"},
                                      "from_sphinx(to_sphinx(inv)) != inv", inv=raw, back=back))
            if mi.to_sphinx(back) != sp:
                viol.append(violation("roundtrip", {"clause": "roundtrip", "dir": "to(from(s))"},
                                      "to_sphinx(from_sphinx(s)) != s", sphinx=sp))
        n = sum(len(v) for v in s.values()) if s else 0
        return Obs(digest=(repr(s), repr(m), serr, merr), nontrivial=n > 0, violations=viol,
                   stats={"sphinx_raises": int(s is None), "myst_raises": int(m is None)})


def _diff(s, m):
    for t in sorted(set(s) | set(m)):
        sn, mn = s.get(t, {}), m.get(t, {})
        for n in sorted(set(sn) | set(mn)):
            if n not in mn:
                return "missing-entry", f"{t} {n!r} missing in MyST (Sphinx: {sn[n]})"
            if n not in sn:
                return "extra-entry", f"{t} {n!r} only in MyST ({mn[n]})"
            if sn[n] != mn[n]:
                for i, f in enumerate(("project", "version", "location", "display")):
                    if sn[n][i] != mn[n][i]:
                        return f"field-{f}", f"{t} {n!r}: {f} {mn[n][i]!r}, Sphinx {sn[n][i]!r}"
    return "other", "?"


def _wellformed_only(case):
    """Sphinx's view of the file with every line Sphinx chokes on removed (v1 only; v2 never raises per line)."""
    ver, lines, final_nl, pv = case
    if ver != 1:
        return None
    good = [l for l in lines if len(l.split(None, 2)) == 3]
    try:
        return sphinx_view(build([ver, good, True, pv]))
    except Exception:
        return None


def _subset(m, good):
    return all(n in good.get(t, {}) and good[t][n] == v for t, ns in m.items() for n, v in ns.items())


HEADERS = [
    b"# Sphinx inventory version 2\r\n# Project: P\r\n# Version: 1\r\n# The remainder of this file is compressed using zlib.\r\n",
    b"# Sphinx inventory version 2 \n# Project: P\n# Version: 1\n# zlib\n",
    b"# Sphinx inventory version 2\n# Project: P \n# Version: 1 \n# The remainder of this file is compressed using zlib.\n",
    b"# Sphinx inventory version 2\n# Project: \n# Version: \n# The remainder of this file is compressed using zlib.\n",
    b"# Sphinx inventory version 2\n# Project: P\n# Version: 1\n# not compressed\n",
    b"# Sphinx inventory version 3\n# Project: P\n# Version: 1\n# zlib\n",
    b"# Sphinx inventory version 2\n# Project: P\n",
    b"",
    b"garbage\n",
    b"# Sphinx inventory version 1\r\n# Project: P\r\n# Version: 1\r\n",
    b"# Sphinx inventory version 1 \n# Project: P\n# Version: 1\n",
    b"# Sphinx inventory version 1\n# Project: P\n",
]


class HeaderSystem(System):
    name = "headers"
    description = "header variants (CRLF, trailing blanks, empty project, unknown version, not compressed, truncated) x 3 bodies"

    def rule(self):
        return "one case = header variant + body; non-trivial = Sphinx loads >= 1 object"

    def bounds(self):
        return {"headers": len(HEADERS), "bodies": 3}

    def cases(self):
        for hi in range(len(HEADERS)):
            for bi in range(3):
                yield [hi, bi]

    def run(self, case):
        hi, bi = case
        hdr = HEADERS[hi]
        v1 = b"version 1" in hdr
        if v1:
            body = [b"", b"a mod p.html\n", b"a mod p.html\r\nb func q.html\r\n"][bi]
        else:
            body = [zlib.compress(b""), zlib.compress(b"a py:function 1 p.html#$ -\n"),
                    zlib.compress(b"a py:function 1 p.html#$ -\r\nb std:label -1 q.html T t\r\n")][bi]
        b = hdr + body
        viol = []
        try:
            s, serr = sphinx_view(b), None
        except Exception as exc:
            s, serr = None, type(exc).__name__
        try:
            m, merr = myst_view(load_myst(b)), None
        except (ValueError, zlib.error, UnicodeDecodeError) as exc:
            m, merr = None, type(exc).__name__
        if s is not None and m != s:
            viol.append(violation("agree", {"clause": "agree-header", "header": hi},
                                  f"header variant {hdr[:60]!r}: MyST {m if m is not None else merr}, Sphinx {s}", bytes=b))
        if s is None and m:
            viol.append(violation("agree", {"clause": "agree-header-reject", "header": hi},
                                  f"Sphinx rejects the header ({serr}); MyST returned objects {m}", bytes=b))
        return Obs(digest=(repr(s), repr(m), serr, merr), nontrivial=bool(s), violations=viol)


class ChunkedStream:
    """Delivers ``data`` in the pieces given by ``cuts``; records the reader's state at every read."""

    def __init__(self, data: bytes, cuts, states=None):
        self.pieces = [data[a:b] for a, b in zip((0, *cuts), (*cuts, len(data)))]
        self.i = 0
        self.pending = b""
        self.nreads = 0
        self.states = states

    def read(self, n=-1):
        self.nreads += 1
        if self.states is not None:
            try:
                fr = sys._getframe(1)
                rd = fr.f_locals.get("self")
                phase = sys._getframe(2).f_code.co_name
                self.states.add((phase, b"\n" in rd.buffer, rd.eof, min(len(rd.buffer), 2)))
            except Exception:
                pass
        if not self.pending:
            if self.i >= len(self.pieces):
                return b""
            self.pending = self.pieces[self.i]
            self.i += 1
            if not self.pending:
                return self.read(n)
        if n is None or n < 0 or n >= len(self.pending):
            out, self.pending = self.pending, b""
        else:
            out, self.pending = self.pending[:n], self.pending[n:]
        return out


CHUNK_FILES = [
    [2, ["a py:function 1 p.html#$ -"], True, 0],
    [2, ["a b std:label -1 l.html#a-b Disp Name", "mod py:module 0 m.html#module-$ -"], True, 0],
    [2, ["é std:label 1 l.html#é Ünï", "x nodomain 1 n.html -"], True, 1],
    [2, [], True, 0],
    [1, ["a mod p.html", "b class r.html"], True, 0],
    [1, ["a mod p.html", "a b func s.html"], False, 1],
    [1, [], True, 0],
    [2, ["a py:function 1 p.html#$ -", "a py:function 1", "t std:term -1 g.html#term-t -"], True, 2],
    # stored (zlib level 0) bodies: the decompressor hands lines out incrementally, so read boundaries fall inside lines
    [2, ["long.name.of.object py:function 1 p.html#$ -", "b py:class 1 q.html -", "c std:label -1 r.html T"], True, 0, 0],
    [2, ["a py:function 1 p.html#$ -", "bb py:class 1 q.html Disp Name", "c std:label -1 r.html -"], False, 0, 0],
]


class ChunkSystem(System):
    name = "chunks"
    distinct_by_construction = True

    def __init__(self, tier):
        super().__init__(tier)
        self.c = 3
        self.files = CHUNK_FILES[:5] + CHUNK_FILES[8:] if tier == "quick" else CHUNK_FILES
        self.description = (
            f"{len(self.files)} inventory files (both versions): every delivery of the byte stream through read() with <= {self.c} cut points (thorough: <= {self.c + 1} for files under 130 bytes) "
            "(all combinations of positions) and every uniform chunk size 1..len; compared with the single-read result"
        )

    def bounds(self):
        return {"cuts": self.c, "files": len(self.files)}

    def rule(self):
        return ("one case = (file, first cut position): all schedules whose smallest cut is that position are executed (transitions = read() calls); "
                "non-trivial = the file has >= 1 object")

    def cases(self):
        for fi, f in enumerate(self.files):
            n = len(build(f))
            yield [fi, "uniform"]
            for first in range(1, n):
                yield [fi, first]

    def run(self, case):
        fi, first = case
        data = build(self.files[fi])
        n = len(data)
        ref = load_myst(data)
        viol = []
        states = set()
        nsched = nreads = 0

        def one(cuts, label):
            nonlocal nsched, nreads
            st = ChunkedStream(data, cuts, states)
            nsched += 1
            try:
                got = mi.load(st)
            except Exception as exc:
                got = f"{type(exc).__name__}: {exc}"
            nreads += st.nreads
            if got != ref and len(viol) < 3:
                viol.append(violation("chunk", {"clause": "chunk", "version": self.files[fi][0]},
                                      f"result depends on chunking: cuts {label} of a {n}-byte file give {got!r}, single read gives {ref!r}",
                                      cuts=list(cuts), file=self.files[fi]))

        if first == "uniform":
            for size in range(1, n + 1):
                one(tuple(range(size, n, size)), f"uniform size {size}")
        else:
            cmax = self.c + 1 if (self.tier != "quick" and n < 130) else self.c
            for extra in range(cmax):
                for rest in itertools.combinations(range(first + 1, n), extra):
                    one((first, *rest), (first, *rest))
        nobj = sum(len(x) for t in ref["objects"].values() for x in t.values())
        return Obs(digest=(fi, repr(ref)), nontrivial=nobj > 0, violations=viol, transitions=nreads, validated=nsched,
                   stats={"schedules": nsched}, canon_set=[h64(s) for s in states] + [h64(("sched", fi, first))])


def systems(tier):
    return [AgreeSystem(tier), HeaderSystem(tier), ChunkSystem(tier)]
