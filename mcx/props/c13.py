"""C13 — config is validated and normalised; overrides behave the same at every level.

Systems (DESIGN.md §4 C13), all over the full product, both tiers:
  values    field x value pool x {constructor, copy, front matter}: accepted <=> documented type, canonical form,
            front-matter result == constructor result, one warning for an invalid value, global never mutated
  pairs     two fields set together in front matter over a non-default global (dict options merge over the global)
  strings   docutils option strings -> OptionParser -> create_myst_config == constructor
  effect    per-document fields: doctree under the global setting == doctree under the front-matter setting
"""

from __future__ import annotations

import contextlib
import copy
import dataclasses as dc
import io
import itertools

from ..engine import Obs, System, violation

PROPERTY_ID = "C13"
LEVEL = "model_checking"
ASSUMPTIONS = [
    "documented types = mcx/props/c13.py:SPEC written from the field annotations / doc_type / help texts",
    "unspecified (only checked for consistency across entry points): bool where an int is documented, a float equal to an allowed integer and None for heading_anchors, "
    "non-list iterables (str, dict, set) where a list of names is documented, gfm_only/linkify (need linkify-it-py)",
    "rejection by any exception type counts as rejection",
    "global_only fields are excluded from the front-matter effect clause; so are commonmark_only (front matter is not CommonMark syntax, so the two documents cannot be framed alike) and sub_delimiters / ref_domains (no docutils-level global setting)",
    "sequence-typed fields are compared modulo list/tuple",
]

from myst_parser.config.main import MdParserConfig, merge_file_level  # noqa: E402

EXTS = {"amsmath", "attrs_image", "attrs_inline", "attrs_block", "colon_fence", "deflist", "dollarmath", "fieldlist", "html_admonition",
        "html_image", "linkify", "replacements", "smartquotes", "strikethrough", "substitution", "tasklist"}

POOL = [
    None, True, False, 0, 1, 7, 8, -1, 1.5, 200.0, 0.0, 1.0, "", "x", "[]", "ab", "dollarmath", "myst_parser.config.main._test_slug_func", "no.such.func", "nodots",
    "myst_parser.config.main.no_such_attr", "myst_parser.__version__", "myst_parser.config.main.MdParserConfig.words_per_minute", [], ["x"], ["dollarmath"], ["dollarmath", "nope"], [1], ("a", "b"), ["{", "}"], ["ab", "c"], {"x"}, {"dollarmath"},
    {}, {"x": "y"}, {"x": 1}, {"x": None}, {1: "y"}, {"http": {"url": "u", "title": "t", "classes": ["c"]}}, {"http": {"url": 1}},
    {"http": {"classes": "abc"}}, {"http": {"classes": [1]}}, {"http": {"title": 2}}, {"http": 5}, {"http": 0}, {"http": False}, {"http": []}, {"http": 0.0}, {"k": ["u", None]}, {"k": ["u", "p"]}, {"k": ["u"]}, {"k": [1, None]},
    {"k": ["u", 3]}, {"k": "u"}, {"k": ["u", 0]}, {"k": ["u", False]}, {"k": ["u", []]}, {"k": ["u", ""]},
]

V, I, U = "valid", "invalid", "unspecified"


def is_str_list(v):
    return isinstance(v, (list, tuple)) and all(isinstance(x, str) for x in v)


def t_bool(v):
    return V if isinstance(v, bool) else I


def t_str(v):
    return V if isinstance(v, str) else I


def t_int(v):
    if isinstance(v, bool):
        return U
    return V if isinstance(v, int) else I


def t_anchor(v):
    if v is None or isinstance(v, bool):
        return U
    if isinstance(v, float) and v.is_integer() and 0 <= v <= 7:
        return U  # a float EQUAL to an allowed integer (the validator is a membership test): unspecified like bool-for-int; entry points must still agree
    return V if isinstance(v, int) and 0 <= v <= 7 else I


def t_strlist(v):
    if is_str_list(v):
        return V
    if isinstance(v, (set, frozenset)) and all(isinstance(x, str) for x in v):
        return U
    return I


def t_opt_strlist(v):
    return V if v is None else t_strlist(v)


def t_strset(v):
    if isinstance(v, (list, tuple, set)) and all(isinstance(x, str) for x in v):
        return V
    return I


def t_exts(v):
    if isinstance(v, (list, tuple, set)):
        return V if all(isinstance(x, str) and x in EXTS for x in v) else I
    if isinstance(v, (str, dict)):
        return U  # any iterable is accepted by the validator; the documentation says "set of names"
    return I


def t_url(v):
    if isinstance(v, (list, tuple)):
        return V if all(isinstance(x, str) for x in v) else I
    if not isinstance(v, dict):
        return I
    for k, val in v.items():
        if not isinstance(k, str):
            return I
        if val is None or isinstance(val, str):
            continue
        if not isinstance(val, dict):
            return I
        if not all(isinstance(kk, str) for kk in val):
            return I
        if "url" in val and not isinstance(val["url"], str):
            return I
        if "title" in val and not isinstance(val["title"], str):
            return I
        if "classes" in val and not (isinstance(val["classes"], list) and all(isinstance(c, str) for c in val["classes"])):
            return I
    return V


def t_slug(v):
    if v is None or callable(v):
        return V
    if isinstance(v, str):
        return V if v == "myst_parser.config.main._test_slug_func" else I
    return I


def t_dict_str_str(v):
    return V if isinstance(v, dict) and all(isinstance(k, str) and isinstance(x, str) for k, x in v.items()) else I


def t_dict_str_any(v):
    return V if isinstance(v, dict) and all(isinstance(k, str) for k in v) else I


def t_delims(v):
    return V if isinstance(v, (list, tuple)) and len(v) == 2 and all(isinstance(x, str) and len(x) == 1 for x in v) else I


def t_inv(v):
    if not isinstance(v, dict):
        return I
    for k, val in v.items():
        if not isinstance(k, str) or not isinstance(val, (list, tuple)) or len(val) != 2:
            return I
        if not isinstance(val[0], str) or not (val[1] is None or isinstance(val[1], str)):
            return I
    return V


BOOLS = ["commonmark_only", "gfm_only", "all_links_external", "links_external_new_tab", "title_to_header", "footnote_sort", "footnote_transition",
         "linkify_fuzzy_links", "dmath_allow_labels", "dmath_allow_space", "dmath_allow_digits", "dmath_double_inline", "update_mathjax",
         "enable_checkboxes", "highlight_code_blocks"]
SPEC = {b: t_bool for b in BOOLS}
SPEC.update({
    "enable_extensions": t_exts, "disable_syntax": t_strlist, "url_schemes": t_url, "ref_domains": t_opt_strlist, "fence_as_directive": t_strset,
    "number_code_blocks": t_strlist, "heading_anchors": t_anchor, "heading_slug_func": t_slug, "html_meta": t_dict_str_str,
    "words_per_minute": t_int, "substitutions": t_dict_str_any, "sub_delimiters": t_delims, "mathjax_classes": t_str,
    "suppress_warnings": t_strlist, "inventories": t_inv,
})
SET_FIELDS = {"enable_extensions", "fence_as_directive"}
DICT_MERGE = {"html_meta", "substitutions"}


def canon(v):
    if isinstance(v, (list, tuple)):
        return ("seq", tuple(canon(x) for x in v))
    if isinstance(v, (set, frozenset)):
        return ("set", tuple(sorted(map(repr, v))))
    if isinstance(v, dict):
        return ("dict", tuple(sorted((repr(k), canon(x)) for k, x in v.items())))
    if callable(v):
        return ("callable", getattr(v, "__name__", "?"))
    return ("val", repr(v))


def expected_canonical(field, value):
    """What the documented normal form of a valid value is (type only where the statement is silent)."""
    if field in SET_FIELDS:
        return ("set", tuple(sorted(map(repr, set(value)))))
    if field == "url_schemes":
        d = {k: None for k in value} if isinstance(value, (list, tuple)) else value
        d = {k: ({"url": x} if isinstance(x, str) else x) for k, x in d.items()}
        return canon(d)
    if field == "heading_slug_func":
        if isinstance(value, str):
            return ("callable", value.rsplit(".", 1)[1])
        return canon(value)
    return canon(value)


FIELDS = [f.name for f in dc.fields(MdParserConfig)]


def try_construct(field, value):
    try:
        return MdParserConfig(**{field: copy.deepcopy(value)}), None
    except Exception as exc:
        return None, f"{type(exc).__name__}: {exc}"


class ValueSystem(System):
    name = "values"
    chunk = 8
    description = f"{len(FIELDS)} fields x {len(POOL)} values x entry points constructor / copy() / Sphinx conf value / front matter (myst: and deprecated top level)"

    def bounds(self):
        return {"fields": len(FIELDS), "values": len(POOL)}

    def alphabet(self):
        return [repr(v) for v in POOL]

    def rule(self):
        return "one case = (field, value); non-trivial = the documented type decides the value (valid or invalid, not unspecified)"

    def cases(self):
        for f in FIELDS:
            for i in range(len(POOL)):
                yield [f, i]

    def run(self, case):
        field, vi = case
        value = POOL[vi]
        status = SPEC[field](value)
        viol = []

        def bad(clause, msg, **sig):
            viol.append(violation(clause, {"clause": clause, "field": field, **sig}, f"{field} = {value!r}: {msg}", field=field, value=repr(value)))

        cfg, err = try_construct(field, value)
        accepted = cfg is not None
        if status == V and not accepted:
            bad("accept", f"documented type admits the value but the constructor rejects it ({err})", entry="constructor")
        if status == I and accepted:
            bad("accept", f"value violates the documented type but the constructor accepts it (stored {getattr(cfg, field)!r})", entry="constructor")
        # copy() validates like the constructor
        base = MdParserConfig()
        try:
            cp = base.copy(**{field: copy.deepcopy(value)})
            cp_ok = True
        except Exception:
            cp, cp_ok = None, False
        if cp_ok != accepted:
            bad("accept", f"copy() {'accepts' if cp_ok else 'rejects'} but the constructor {'accepts' if accepted else 'rejects'}", entry="copy")
        if accepted and status == V:
            got = canon(getattr(cfg, field))
            exp = expected_canonical(field, value)
            if got != exp:
                bad("canonical", f"stored as {getattr(cfg, field)!r}, canonical form is {exp}", entry="constructor")
            if cp_ok and canon(getattr(cp, field)) != got:
                bad("canonical", f"copy() stores {getattr(cp, field)!r}, constructor {getattr(cfg, field)!r}", entry="copy")
        # Sphinx conf.py value (create_myst_config): accepted iff the constructor accepts it, and stored the same way; an invalid
        # value leaves the defaults in force (the error is logged)
        omit = {f.name for f in dc.fields(MdParserConfig) if "sphinx" in f.metadata.get("omit", [])}
        if field not in omit:
            import types

            from myst_parser.sphinx_ext.main import create_myst_config

            conf = {f"myst_{n}": copy.deepcopy(d) for n, d, _ in MdParserConfig().as_triple()}
            conf[f"myst_{field}"] = copy.deepcopy(value)
            app = types.SimpleNamespace(config=conf, env=types.SimpleNamespace())
            import logging

            try:
                logging.disable(logging.CRITICAL)  # (the handler reports an invalid value through the Sphinx logger)
                try:
                    create_myst_config(app)
                finally:
                    logging.disable(logging.NOTSET)
                sx = app.env.myst_config
                if accepted and canon(getattr(sx, field)) != canon(getattr(cfg, field)):
                    bad("accept", f"as a Sphinx conf value it is stored as {getattr(sx, field)!r}, the constructor stores {getattr(cfg, field)!r}", entry="sphinx-conf")
                if not accepted and canon(getattr(sx, field)) != canon(getattr(MdParserConfig(), field)):
                    bad("accept", f"the constructor rejects the value but as a Sphinx conf value it is in force ({getattr(sx, field)!r})", entry="sphinx-conf")
            except Exception as exc:
                bad("accept", f"create_myst_config raised {type(exc).__name__}: {exc}", entry="sphinx-conf")
        # front matter over a non-default global
        g = MdParserConfig(html_meta={"g": "G"}, substitutions={"g": 1}, enable_extensions=["deflist"], url_schemes={"ftp": None},
                           heading_anchors=1, fence_as_directive=["gg"])
        snap = repr(sorted((k, canon(v)) for k, v in g.as_dict().items()))
        entries = [("myst", {"myst": {field: copy.deepcopy(value)}})]
        if field in DICT_MERGE:
            entries.append(("toplevel", {field: copy.deepcopy(value)}))
        for ename, top in entries:
            warns = []
            try:
                m = merge_file_level(g, top, lambda t, msg: warns.append((t, msg)))
            except Exception as exc:
                bad("frontmatter", f"merge_file_level raised {type(exc).__name__}: {exc}", entry=ename, kind="exception")
                continue
            if repr(sorted((k, canon(v)) for k, v in g.as_dict().items())) != snap:
                bad("global-mutated", "the global configuration object changed while merging front matter", entry=ename)
            dep = 1 if ename == "toplevel" else 0
            got = getattr(m, field)
            if accepted:
                exp = getattr(cfg, field)
                if field in DICT_MERGE and isinstance(exp, dict):
                    exp = {**getattr(g, field), **exp}
                if len(warns) != dep:
                    bad("frontmatter", f"value accepted by the constructor but front matter warns: {[w[1] for w in warns]}", entry=ename, kind="valid-warned")
                elif canon(got) != canon(exp):
                    bad("frontmatter", f"front matter stores {got!r}, the constructor stores {exp!r}", entry=ename, kind="not-canonical")
            else:
                if len(warns) != 1 + dep:
                    bad("frontmatter", f"invalid value: {len(warns) - dep} topmatter warnings (expected exactly 1)", entry=ename, kind="warn-count")
                if canon(got) != canon(getattr(g, field)):
                    bad("frontmatter", f"invalid value changed the field to {got!r}", entry=ename, kind="invalid-applied")
            for t, _ in warns:
                if getattr(t, "value", None) != "topmatter":
                    bad("frontmatter", f"warning type {t!r} is not topmatter", entry=ename, kind="warn-type")
            others = {k: canon(v) for k, v in m.as_dict().items() if k != field}
            if others != {k: canon(v) for k, v in g.as_dict().items() if k != field}:
                bad("frontmatter", "another field changed", entry=ename, kind="other-field")
        return Obs(digest=(field, vi, accepted), nontrivial=status != U, violations=viol[:4], transitions=3 + len(entries), validated=3 + len(entries))


class PairSystem(System):
    name = "pairs"
    chunk = 8
    description = "every ordered pair of fields, each with a valid and an invalid value, set together in front matter: each field ends up as if set alone"
    GOOD = {
        "commonmark_only": True, "enable_extensions": ["dollarmath"], "disable_syntax": ["emphasis"], "url_schemes": ["http"],
        "fence_as_directive": ["note"], "heading_anchors": 3, "html_meta": {"a": "b"}, "substitutions": {"s": "t"}, "footnote_sort": False,
        "number_code_blocks": ["python"], "sub_delimiters": ["[", "]"], "words_per_minute": 100, "title_to_header": True,
    }
    BAD = {
        "commonmark_only": "yes", "enable_extensions": ["nope"], "disable_syntax": "emphasis", "url_schemes": 5, "fence_as_directive": 1,
        "heading_anchors": 9, "html_meta": {"a": 1}, "substitutions": [1], "footnote_sort": 0, "number_code_blocks": "python",
        "sub_delimiters": ["ab", "c"], "words_per_minute": "x", "title_to_header": None,
    }

    def bounds(self):
        return {"fields": len(self.GOOD)}

    def rule(self):
        return "one case = (field1, good/bad, field2, good/bad); non-trivial = always"

    def cases(self):
        for f1, f2 in itertools.permutations(self.GOOD, 2):
            for g1 in (True, False):
                for g2 in (True, False):
                    yield [f1, g1, f2, g2]

    def run(self, case):
        f1, g1, f2, g2 = case
        v1 = (self.GOOD if g1 else self.BAD)[f1]
        v2 = (self.GOOD if g2 else self.BAD)[f2]
        g = MdParserConfig(html_meta={"g": "G"}, substitutions={"g": 1})
        viol = []
        warns = []
        m = merge_file_level(g, {"myst": {f1: copy.deepcopy(v1), f2: copy.deepcopy(v2)}}, lambda t, msg: warns.append(msg))
        for f, v in ((f1, v1), (f2, v2)):
            alone = merge_file_level(g, {"myst": {f: copy.deepcopy(v)}}, lambda t, msg: None)
            if canon(getattr(m, f)) != canon(getattr(alone, f)):
                viol.append(violation("pairs", {"clause": "pairs", "field": f}, f"{f}={v!r} together with {case}: {getattr(m, f)!r}, alone {getattr(alone, f)!r}"))
        if len(warns) != (not g1) + (not g2):
            viol.append(violation("pairs", {"clause": "pairs-warn-count", "field": f1}, f"{len(warns)} warnings for {(not g1) + (not g2)} invalid values: {warns}"))
        return Obs(digest=(f1, g1, f2, g2, len(warns)), violations=viol)


STRINGS = {
    # field: [(option string, python value or REJECT)]
    "commonmark_only": [("yes", True), ("no", False), ("true", True), ("0", False), ("1", True), ("maybe", "REJECT")],
    "all_links_external": [("on", True), ("off", False)],
    "footnote_sort": [("no", False), ("yes", True)],
    "highlight_code_blocks": [("0", False)],
    "heading_anchors": [("3", 3), ("0", 0), ("7", 7), ("8", "REJECT"), ("x", "REJECT"), ("-1", "REJECT")],
    "words_per_minute": [("100", 100), ("x", "REJECT")],
    "enable_extensions": [("dollarmath,amsmath", ["dollarmath", "amsmath"]), ("dollarmath, amsmath", ["dollarmath", "amsmath"]), ("bogus", "REJECT"),
                          ("dollarmath,", ["dollarmath"])],
    "disable_syntax": [("emphasis,link", ["emphasis", "link"])],
    "fence_as_directive": [("a,b", ["a", "b"])],
    "number_code_blocks": [("py,c", ["py", "c"])],
    "suppress_warnings": [("myst.header,myst", ["myst.header", "myst"])],
    "url_schemes": [("http,ftp", ["http", "ftp"]), ("{http: null, x: 'u{{path}}'}", {"http": None, "x": "u{{path}}"}),
                    ("{http: {url: u, classes: [c]}}", {"http": {"url": "u", "classes": ["c"]}}), ("1", "REJECT"), ("{", "REJECT"),
                    ("{http: {url: 1}}", "REJECT")],
    "html_meta": [("{a: b}", {"a": "b"}), ("a=b", "REJECT"), ("[1]", "REJECT"), ("{a: 1}", "REJECT"), ("{}", {}), ("[]", "REJECT"), ("0", "REJECT"), ("false", "REJECT"),
                  ("''", "REJECT")],
    "substitutions": [("{a: 1}", {"a": 1}), ("x", "REJECT"), ("{}", {}), ("[]", "REJECT"), ("0", "REJECT"), ("false", "REJECT")],
    "heading_slug_func": [("myst_parser.config.main._test_slug_func", "myst_parser.config.main._test_slug_func"), ("no.such", "REJECT")],
    "inventories": [("{k: [u, null]}", {"k": ["u", None]}), ("{k: u}", "REJECT"), ("[]", "REJECT"), ("0", "REJECT"), ("false", "REJECT")],
}


class StringSystem(System):
    name = "strings"
    chunk = 1
    description = "docutils option strings (--myst-<field>=<spelling>) through OptionParser(components=(Parser,)) and create_myst_config, compared with the constructor given the equivalent Python value"

    def bounds(self):
        return {"cases": sum(len(v) for v in STRINGS.values())}

    def rule(self):
        return "one case = (field, spelling); non-trivial = the spelling is accepted"

    def cases(self):
        for f, lst in STRINGS.items():
            for i in range(len(lst)):
                yield [f, i]

    def run(self, case):
        from docutils.frontend import OptionParser

        from myst_parser.parsers.docutils_ import Parser, create_myst_config

        field, i = case
        spelling, pyval = STRINGS[field][i]
        op = OptionParser(components=(Parser,), read_config_files=False)
        err = io.StringIO()
        res = None
        try:
            with contextlib.redirect_stderr(err):
                settings = op.parse_args([f"--myst-{field.replace('_', '-')}={spelling}"])
            res = create_myst_config(settings)
        except SystemExit:
            res = None
        except Exception:
            res = None
        viol = []
        if pyval == "REJECT":
            if res is not None:
                viol.append(violation("strings", {"clause": "strings", "field": field, "kind": "accepted"},
                                      f"--myst-{field}={spelling!r} accepted as {getattr(res, field)!r}, the constructor rejects the equivalent value"))
        else:
            ref = MdParserConfig(**{field: pyval})
            if res is None:
                viol.append(violation("strings", {"clause": "strings", "field": field, "kind": "rejected"},
                                      f"--myst-{field}={spelling!r} rejected ({err.getvalue().strip()[-120:]}), constructor accepts {pyval!r}"))
            elif canon(getattr(res, field)) != canon(getattr(ref, field)):
                viol.append(violation("strings", {"clause": "strings", "field": field, "kind": "differs"},
                                      f"--myst-{field}={spelling!r} gives {getattr(res, field)!r}, constructor gives {getattr(ref, field)!r}"))
            else:
                others = {k: canon(v) for k, v in res.as_dict().items() if k != field}
                if others != {k: canon(v) for k, v in MdParserConfig().as_dict().items() if k != field}:
                    viol.append(violation("strings", {"clause": "strings", "field": field, "kind": "other-field"}, "another field changed"))
        return Obs(digest=(field, spelling, res is not None), nontrivial=res is not None, violations=viol)


# (field, value, base global settings, document body, front matter extra)
EFFECT = [
    ("enable_extensions", ["dollarmath"], {}, "a $b$ c\n\n$$\nx\n$$\n", ""),
    ("enable_extensions", ["deflist", "strikethrough"], {}, "Term\n: def\n\n~~s~~\n", ""),
    ("enable_extensions", ["colon_fence", "tasklist"], {}, ":::{note}\nx\n:::\n\n- [ ] t\n", ""),
    ("disable_syntax", ["emphasis"], {}, "*a* **b**\n", ""),
    ("disable_syntax", ["table", "link"], {}, "[a](http://x)\n\n|a|\n|-|\n|b|\n", ""),
    ("all_links_external", True, {}, "[a](b.md) [c](#d)\n", ""),
    ("links_external_new_tab", True, {}, "[a](http://x)\n", ""),
    ("url_schemes", ["http"], {}, "[a](http://x) [b](https://y) [c](mailto:z)\n", ""),
    ("url_schemes", {"http": None, "x": "https://e.org/{{path}}#{{fragment}}"}, {}, "[a](http://x) [b](x:foo#bar) <x:q>\n", ""),
    ("url_schemes", {"x": {"url": "https://e.org/{{path}}", "title": "T {{path}}", "classes": ["c1"]}}, {}, "[](x:foo) [b](x:foo)\n", ""),
    ("fence_as_directive", ["note"], {}, "```note\nx\n```\n", ""),
    ("number_code_blocks", ["python"], {}, "```python\nx = 1\n```\n\n```c\ny\n```\n", ""),
    ("title_to_header", True, {}, "para\n", "title: My *T*\n"),
    ("heading_anchors", 2, {}, "# A\n\n## B\n\n### C\n\n[](#b) [](#c)\n", ""),
    ("heading_anchors", 0, {"myst_heading_anchors": 3}, "# A\n\n## B\n\n[](#b)\n", ""),
    ("html_meta", {"description lang=en": "d", "property=og:x": "y"}, {}, "para\n", ""),
    ("footnote_sort", False, {}, "a[^x] b[^y]\n\n[^y]: Y\n\n[^x]: X\n\nend\n", ""),
    ("footnote_transition", False, {}, "a[^x]\n\n[^x]: X\n\nend\n", ""),
    ("words_per_minute", 50, {}, "some words here\n", ""),
    ("substitutions", {"k": "*v*", "n": 3}, {"myst_enable_extensions": ["substitution"]}, "{{k}} and {{n}}\n\n{{k}}\n", ""),
    ("dmath_allow_labels", False, {"myst_enable_extensions": ["dollarmath"]}, "$$\na\n$$ (lbl)\n", ""),
    ("dmath_allow_space", False, {"myst_enable_extensions": ["dollarmath"]}, "$ a $ and $b$\n", ""),
    ("dmath_allow_digits", False, {"myst_enable_extensions": ["dollarmath"]}, "1$a$2 and $b$\n", ""),
    ("dmath_double_inline", True, {"myst_enable_extensions": ["dollarmath"]}, "x $$a$$ y\n", ""),
    ("enable_checkboxes", True, {"myst_enable_extensions": ["tasklist"]}, "- [ ] a\n- [x] b\n", ""),
    ("highlight_code_blocks", False, {}, "```python\nx = 1\n```\n", ""),
]


def yaml_dump(v):
    import yaml

    return yaml.safe_dump(v, default_flow_style=True).strip()


# spellings of the front-matter block accepted by the Markdown front-matter rule: (opening line, closing line, CRLF line ends)
FM_SPELLINGS = [("---\n", "---\n", False), ("--- \n", "---\n", False), ("----\n", "----\n", False), ("---\n", "---  \n", False), ("---\n", "---\n", True)]


class EffectSystem(System):
    name = "effect"
    chunk = 1
    description = ("for every per-document field and several valid values: the doctree of an effect document under the global (docutils settings) value "
                   "equals the doctree under the same value in front matter; and both differ from the default (vacuity guard)")

    def bounds(self):
        return {"cases": len(EFFECT), "front_matter_spellings": len(FM_SPELLINGS)}

    def rule(self):
        return "one case = (field, value, document, spelling of the front-matter delimiters); non-trivial = the setting changes the doctree relative to the default"

    def cases(self):
        for i in range(len(EFFECT)):
            for v in range(len(FM_SPELLINGS)):
                yield [i, v]

    def run(self, case):
        from docutils import nodes

        i, v = case
        opener, closer, crlf = FM_SPELLINGS[v]

        from ..drivers import docutils_doctree

        field, value, base, body, fm_extra = EFFECT[i]
        import re

        import yaml

        def strip(doc):
            for n in list(doc.findall(lambda n: isinstance(n, (nodes.docinfo, nodes.field_list)))):
                n.parent.remove(n)
            return re.sub(r' line="\d+"', "", doc.pformat())

        fm_global = f"{opener}{fm_extra}other: 1\n{closer}"
        fm_local = opener + fm_extra + "other: 1\n" + yaml.safe_dump({"myst": {field: value}}, default_flow_style=False) + closer
        if crlf:
            fm_global, fm_local, body = (x.replace("\n", "\r\n") for x in (fm_global, fm_local, body))
        d_glob, w_glob = docutils_doctree(fm_global + body, {**base, f"myst_{field}": copy.deepcopy(value)})
        d_fm, w_fm = docutils_doctree(fm_local + body, dict(base))
        d_def, w_def = docutils_doctree(fm_global + body, dict(base))
        a, b, c = strip(d_glob), strip(d_fm), strip(d_def)
        viol = []
        import re

        norm = lambda w: re.sub(r":\d+:", ":N:", w)  # noqa: E731
        if a != b:
            viol.append(violation("effect", {"clause": "effect", "field": field},
                                  f"{field}={value!r}: doctree under the global setting differs from the doctree under the front-matter setting",
                                  global_doctree=a[:2500], frontmatter_doctree=b[:2500], text=fm_local + body))
        elif norm(w_glob) != norm(w_fm):
            viol.append(violation("effect", {"clause": "effect-warnings", "field": field},
                                  f"{field}={value!r}: warnings differ: global {w_glob!r}, front matter {w_fm!r}", text=fm_local + body))
        return Obs(digest=(field, a == c), nontrivial=a != c, violations=viol, transitions=3, validated=2,
                   stats={"no_effect": int(a == c)})


SX_DOCS = {
    "fm-figure-md": "---\nmyst:\n  heading_anchors: 2\n---\n# T\n\n:::{figure-md}\n<img src=\"x.png\" alt=\"a\">\n\ncap\n:::\n",
    "figure-md": "# T\n\n:::{figure-md}\n<img src=\"x.png\" alt=\"a\">\n\ncap\n:::\n",
    "fm-ext": "---\nmyst:\n  enable_extensions: [deflist]\n  url_schemes: [http]\n  substitutions: {k: local}\n  html_meta: {a: b}\n---\n# T\n\nTerm\n: d\n\n{{k}} [l](http://x)\n",
    "fm-bad": "---\nmyst:\n  enable_extensions: [deflist, nope]\n  heading_anchors: 99\n---\n# T\n",
    "plain": "# T\n\n<img src=\"y.png\">\n\n{{k}}\n",
}


class SphinxGlobalSystem(System):
    """the configuration object shared by all documents of a Sphinx build (env.myst_config) is never modified by reading a document"""

    name = "sphinx-global"
    fork_per_case = True
    chunk = 1

    def __init__(self, tier):
        super().__init__(tier)
        self.description = (f"every sequence of <= 2 of {len(SX_DOCS)} documents (front matter overrides, figure-md with and without front matter, invalid front matter) read by one "
                            "in-process Sphinx application: deep snapshot of env.myst_config identical before and after every read")

    def prepare(self, ctx):
        self.root = ctx.scratch / "c13sx"
        self.root.mkdir(exist_ok=True)

    def bounds(self):
        return {"documents": len(SX_DOCS), "depth": 2}

    def rule(self):
        return "one case = one read sequence in a fresh application; non-trivial = always"

    def cases(self):
        names = list(SX_DOCS)
        for a in names:
            yield [a]
        for a, b in itertools.product(names, repeat=2):
            yield [a, b]

    def run(self, seq):
        import hashlib
        import shutil

        from ..drivers import SphinxDriver

        root = self.root / hashlib.sha1(repr(seq).encode()).hexdigest()[:10]
        d = SphinxDriver(root, conf="myst_enable_extensions=['colon_fence','substitution']\nmyst_substitutions={'k':'GLOBAL'}\nsuppress_warnings=['image.not_readable','toc.not_included']\n")
        viol = []
        try:
            snap = lambda: repr(sorted((k, canon(v)) for k, v in d.app.env.myst_config.as_dict().items()))  # noqa: E731
            s0 = snap()
            for i, name in enumerate(seq):
                d.read(f"d{i}", SX_DOCS[name])
                s1 = snap()
                if s1 != s0 and not viol:
                    viol.append(violation("global-mutated", {"clause": "global-mutated", "field": "sphinx-env", "entry": name},
                                          f"env.myst_config changed while reading document {name!r} (sequence {seq}): before {s0[:300]} after {s1[:300]}"))
        finally:
            d.close()
            shutil.rmtree(root, ignore_errors=True)
        return Obs(digest=tuple(seq), violations=viol, transitions=len(seq), validated=len(seq))


def systems(tier):
    return [ValueSystem(tier), PairSystem(tier), StringSystem(tier), EffectSystem(tier), SphinxGlobalSystem(tier)]
