"""C05 — heading levels determine section nesting; nested headings never make sections.

Systems (DESIGN.md §4 C05):
  levels    all sequences of <= n heading levels 1-6 at top level (each followed by a marker paragraph)
  mixed     all sequences of <= m symbols over {H1..H6, paragraph, heading in quote / list item / note / nested note,
            include with :heading-offset: 0/1/2}
  fixpoint  BFS over the canonical state read from the real renderer (the key set of _level_to_section) x 6 levels
Reference model: a stack machine (open = [(level, section)]).
"""

from __future__ import annotations

import io
import itertools

from docutils import nodes
from docutils.frontend import get_default_settings
from docutils.utils import new_document

from ..engine import FixpointSystem, Obs, System, violation

PROPERTY_ID = "C05"
LEVEL = "model_checking"
ASSUMPTIONS = [
    "reference model = stack machine of mcx/props/c05.py:Model (heading of level L closes every open level >= L, attaches to the new top)",
    "observed on the pre-transform doctree (renderer driven directly, as Parser.parse does), doctitle/sectsubtitle transforms not applied",
    "Sphinx's `only` directive (match_titles=True) is not a container in the sense of the statement and is not generated",
    "fixpoint abstraction: future behaviour depends on the history only through the set of open levels (checked without that assumption up to the tree bound)",
]

from myst_parser.config.main import MdParserConfig  # noqa: E402
from myst_parser.mdit_to_docutils.base import DocutilsRenderer  # noqa: E402
from myst_parser.parsers.docutils_ import Parser  # noqa: E402
from myst_parser.parsers.mdit import create_md_parser  # noqa: E402

_SET = None


def _register_titled():
    """harness-side stand-in for Sphinx' `only`: a directive that parses its body with match_titles=True"""
    from docutils.parsers.rst import Directive, directives

    if "mcx-titled" in directives._directives:
        return

    class Titled(Directive):
        has_content = True

        def run(self):
            node = nodes.container(classes=["mcx-titled"])
            self.state.nested_parse(self.content, self.content_offset, node, match_titles=True)
            return [node]

    directives.register_directive("mcx-titled", Titled)


def render(text: str, source: str = "/src/index.md", cfg=None):
    global _SET
    if _SET is None:
        _SET = get_default_settings(Parser)
    ws = io.StringIO()
    st = _SET.copy()
    st.halt_level = 5
    st.report_level = 2
    st.warning_stream = ws
    st.file_insertion_enabled = True
    doc = new_document(source, st)
    _register_titled()
    md = create_md_parser(cfg or MdParserConfig(enable_extensions=["colon_fence"]), DocutilsRenderer)
    md.options["document"] = doc
    md.render(text)
    return doc, ws.getvalue(), md.renderer


class Model:
    """Stack machine: the reference semantics of the first sentence of C05."""

    def __init__(self):
        self.open = [(0, -1)]  # (level, section index); -1 = document
        self.sections = []  # (title, parent index)
        self.warn_lines = []
        self.paras = []  # (paragraph marker, section index) in source order

    def heading(self, level: int, title: str, line: int):
        while self.open[-1][0] >= level:
            self.open.pop()
        plevel, pidx = self.open[-1]
        if level > plevel + 1:
            self.warn_lines.append(line)  # None = inside an included file (line checked by C04, not here)
        self.sections.append((title, pidx))
        self.open.append((level, len(self.sections) - 1))

    def para(self, marker: str):
        self.paras.append((marker, self.open[-1][1]))

    def open_levels(self):
        return tuple(sorted(l for l, _ in self.open))


def observe(doc):
    secs = list(doc.findall(nodes.section))
    index = {id(s): i for i, s in enumerate(secs)}
    out = []
    for s in secs:
        p = s.parent
        title = s[0].astext() if len(s) and isinstance(s[0], nodes.title) else None
        out.append((title, index.get(id(p), -1) if not isinstance(p, nodes.document) else -1,
                    type(p).__name__))
    return secs, index, out


def warn_lines(stream: str):
    from ..drivers import parse_warnings

    return [(w["line"], w["src"]) for w in parse_warnings(stream) if w["tag"] == "myst.header"], \
           [w for w in parse_warnings(stream) if w["tag"] != "myst.header"]


def compare(builder, doc, stream, renderer, viol_sig_extra=None):
    """builder: a Doc (below) after the text was assembled. Returns list of violations."""
    viol = []
    extra = viol_sig_extra or {}
    model = builder.model
    secs, index, obs = observe(doc)
    text = builder.text()

    def bad(clause, msg, **sig):
        viol.append(violation(clause, {"clause": clause, **extra, **sig}, msg, text=text, files=builder.files,
                              doctree=doc.pformat()[:3000], warnings=stream))

    if [(t, p) for t, p, _ in obs] != model.sections:
        bad("nesting", f"sections (title, parent index) {[(t, p) for t, p, _ in obs]}, model {model.sections}")
    for t, p, pk in obs:
        if pk not in ("document", "section"):
            bad("section-in-container", f"section {t!r} has a {pk} parent", parent=pk)
    hw, other = warn_lines(stream)
    inc = [l for l, src in hw if src.endswith(("inc.md", "inc2.md"))]
    got = sorted(l for l, src in hw if not src.endswith(("inc.md", "inc2.md")))
    want = sorted(l for l in model.warn_lines if l is not None)
    if got != want or len(inc) != sum(1 for l in model.warn_lines if l is None):
        bad("skip-warning", f"[myst.header] warnings at lines {got} (+{len(inc)} in included files), model expects lines {want} "
                            f"(+{sum(1 for l in model.warn_lines if l is None)} in included files)")
    if other:
        bad("other-warning", f"unexpected warnings: {[w['msg'] for w in other][:3]}")
    # paragraphs: marker -> parent section
    markers = {m for m, _ in model.paras}
    seen = []
    for p in doc.findall(nodes.paragraph):
        m = p.astext().split()[0] if p.astext() else ""
        if m in markers:
            par = p.parent
            seen.append((m, index.get(id(par), -1) if isinstance(par, (nodes.section, nodes.document)) else "container"))
    if seen != model.paras:
        bad("paragraph-parent", f"marker paragraphs (marker, parent section #) in document order {seen}, model {model.paras}")
    # nested headings -> rubrics
    rub = [("".join(c.astext() for c in r.children if not isinstance(c, nodes.system_message)), r.get("level"), type(r.parent).__name__)
           for r in doc.findall(nodes.rubric)]
    # (level None = unspecified: a heading inside a directive inside an offset include is rendered by a nested parse with its own offset)
    if [(t, l if dict(builder.rubrics).get(t, 0) is not None else None) for t, l, _ in rub] != builder.rubrics:
        bad("rubric", f"rubrics (text, level) {[(t, l) for t, l, _ in rub]}, expected {builder.rubrics}")
    for node in doc.findall(nodes.section):
        anc = node.parent
        while anc is not None and not isinstance(anc, nodes.document):
            if not isinstance(anc, nodes.section):
                bad("section-in-container", f"section below a {type(anc).__name__}", parent=type(anc).__name__)
                break
            anc = anc.parent
    if renderer is not None:
        ol = tuple(sorted(renderer._level_to_section))
        if ol != model.open_levels():
            bad("open-levels", f"renderer's open levels {ol}, model {model.open_levels()}")
    return viol


class Doc:
    """Assembles the text line by line and drives the model alongside."""

    INC = "# IA\n\nIPA\n\n## IB\n\nIPB\n"
    # a nested render (directive body, div, nested include) BETWEEN the headings of the included file
    INC2 = "# JA\n\n```{note}\nnested body\n```\n\n```{tip}\n### JN\n```\n\n## JB\n\nJPB\n\n```{include} inc.md\n```\n\n## JC\n"

    def __init__(self, scratch):
        self.lines = []
        self.model = Model()
        self.rubrics = []
        self.n = 0
        self.files = {}
        self.scratch = scratch

    def text(self):
        return "\n".join(self.lines) + "\n"

    def lineno(self):
        return len(self.lines) + 1

    def add(self, sym):
        i = self.n
        self.n += 1
        kind = sym[0]
        if kind == "H":
            lvl = int(sym[1])
            self.model.heading(lvl, f"T{i}", self.lineno())
            self.lines += ["#" * lvl + f" T{i}", ""]
            if len(sym) > 2:  # 'H3p': followed by a marker paragraph
                self.model.para(f"P{i}")
                self.lines += [f"P{i} text", ""]
        elif kind == "P":
            self.model.para(f"P{i}")
            self.lines += [f"P{i} text", ""]
        elif kind == "Q":  # heading in a block quote
            lvl = int(sym[1])
            self.rubrics.append((f"Q{i}", lvl))
            self.lines += ["> " + "#" * lvl + f" Q{i}", ">", f"> quoted", ""]
        elif kind == "L":
            lvl = int(sym[1])
            self.rubrics.append((f"L{i}", lvl))
            self.lines += ["- " + "#" * lvl + f" L{i}", "", "  item text", ""]
        elif kind == "N":
            lvl = int(sym[1])
            self.rubrics.append((f"N{i}", lvl))
            self.lines += ["```{note}", "#" * lvl + f" N{i}", "", "note text", "```", ""]
        elif kind == "E":  # setext heading ('===' level 1, '---' level 2)
            lvl = int(sym[1])
            self.model.heading(lvl, f"T{i}", self.lineno())
            self.lines += [f"T{i}", "=" * 4 if lvl == 1 else "-" * 4, ""]
        elif kind == "Z":  # a heading without any text: it still is a heading of its level
            lvl = int(sym[1])
            self.model.heading(lvl, "", self.lineno())
            self.lines += ["#" * lvl, ""]
        elif kind == "O":  # heading directly after an option line (no blank line): it is body, not a comment of the option block
            lvl = int(sym[1])
            self.rubrics.append((f"O{i}", lvl))
            self.lines += ["```{note}", ":class: c", "#" * lvl + f" O{i}", "", "note text", "```", ""]
        elif kind == "M":  # nested two deep: admonition containing a quote containing a heading
            lvl = int(sym[1])
            self.rubrics.append((f"M{i}", lvl))
            self.lines += ["::::{tip}", ":::{note}", "> " + "#" * lvl + f" M{i}", ":::", "::::", ""]
        elif kind == "D":  # a plain ::: div directly in the body of a match_titles directive: the div is a container, the heading a rubric
            lvl = int(sym[1])
            self.rubrics.append((f"D{i}", lvl))
            self.lines += ["::::{mcx-titled}", ":::", "#" * lvl + f" D{i}", "div text", ":::", "::::", ""]
        elif kind in "TS":  # topic / sidebar: Structural nodes that are not sections
            lvl = int(sym[1])
            self.rubrics.append((f"{kind}{i}", lvl))
            name = "topic" if kind == "T" else "sidebar"
            self.lines += ["```{%s} Title %d" % (name, i), "#" * lvl + f" {kind}{i}", "", "body text", "```", ""]
        elif kind == "J":  # include (with heading offset) of a file whose headings are separated by nested renders
            off = int(sym[1])
            self.files["inc2.md"] = self.INC2
            self.model.heading(1 + off, "JA", None)
            self.rubrics.append(("JN", None))
            self.model.heading(2 + off, "JB", None)
            self.model.para("JPB")
            # the nested include is rendered with ITS OWN offset (0): levels 1 and 2
            self.model.heading(1, "IA", None)
            self.model.para("IPA")
            self.model.heading(2, "IB", None)
            self.model.para("IPB")
            self.model.heading(2 + off, "JC", None)
            self.lines += ["````{include} inc2.md", f":heading-offset: {off}", "````", ""]
        elif kind == "I":  # include with heading offset
            off = int(sym[1])
            start = self.lineno()
            self.files["inc.md"] = self.INC
            self.model.heading(1 + off, "IA", None)
            self.model.para("IPA")
            self.model.heading(2 + off, "IB", None)
            self.model.para("IPB")
            self.lines += ["```{include} inc.md", f":heading-offset: {off}", "```", ""]
        else:
            raise ValueError(sym)


class _Base(System):
    def prepare(self, ctx):
        self.dir = ctx.scratch / "c05"
        self.dir.mkdir(exist_ok=True)
        (self.dir / "inc.md").write_text(Doc.INC)
        (self.dir / "inc2.md").write_text(Doc.INC2)

    def execute(self, seq):
        d = Doc(self.dir)
        for s in seq:
            d.add(s)
        doc, stream, r = render(d.text(), str(self.dir / "index.md"))
        return d, doc, stream, r


class LevelSystem(_Base):
    name = "levels"

    def __init__(self, tier):
        super().__init__(tier)
        self.n = 6 if tier == "quick" else 7
        self.description = f"all sequences of <= {self.n} heading levels from H1..H6 at top level, each heading followed by a marker paragraph"

    def bounds(self):
        return {"length": self.n}

    def alphabet(self):
        return [f"H{l}p" for l in range(1, 7)]

    def rule(self):
        return "one case = one level sequence; non-trivial = >= 2 headings; states = distinct open-level sets x last level"

    def cases(self):
        for n in range(self.n + 1):
            for lv in itertools.product(range(1, 7), repeat=n):
                yield list(lv)

    def run(self, lv):
        d, doc, stream, r = self.execute([f"H{l}p" for l in lv])
        viol = compare(d, doc, stream, r)
        return Obs(digest=(tuple(d.model.sections), tuple(d.model.warn_lines), [(t, p) for t, p, _ in observe(doc)[2]]),
                   nontrivial=len(lv) >= 2, violations=viol[:3], canon=(tuple(sorted(r._level_to_section)), lv[-1] if lv else 0))


class TitleHeaderSystem(_Base):
    """title_to_header: the front-matter title is an H1 like any other (it opens the level-1 section the later headings nest in)"""

    name = "title-header"

    def __init__(self, tier):
        super().__init__(tier)
        self.n = 4 if tier == "quick" else 5
        self.description = f"front matter 'title:' with title_to_header=True followed by every sequence of <= {self.n} heading levels from H1..H4 (+ marker paragraphs)"

    def bounds(self):
        return {"length": self.n}

    def rule(self):
        return "one case = one level sequence after the title; non-trivial = >= 1 heading"

    def cases(self):
        for n in range(self.n + 1):
            for lv in itertools.product(range(1, 5), repeat=n):
                yield list(lv)

    def run(self, lv):
        d = Doc(self.dir)
        d.lines += ["---", "title: FT", "---", ""]
        d.model.heading(1, "FT", 1)
        d.model.para("PF")
        d.lines += ["PF text", ""]
        for l in lv:
            d.add(f"H{l}p")
        doc, stream, r = render(d.text(), str(self.dir / "index.md"), MdParserConfig(title_to_header=True))
        viol = compare(d, doc, stream, r, {"system": "title-header"})
        return Obs(digest=(tuple(d.model.sections), tuple(d.model.warn_lines)), nontrivial=len(lv) >= 1, violations=viol[:3])


MIXED = ["H1", "H2", "H3", "H4", "H6", "E1", "E2", "Z2", "P", "Q1", "Q3", "L1", "L2", "N1", "N3", "O2", "M2", "T2", "S1", "D3", "I0", "I1", "I2", "J1", "J2"]


class MixedSystem(_Base):
    name = "mixed"

    def __init__(self, tier):
        super().__init__(tier)
        self.m = 3 if tier == "quick" else 4
        self.description = (f"all sequences of <= {self.m} symbols over {MIXED}: headings, paragraphs, headings nested in quote / list item / "
                            "note / tip>note>quote, include of a file with headings [1,2] at heading-offset 0/1/2")

    def bounds(self):
        return {"length": self.m}

    def alphabet(self):
        return MIXED

    def rule(self):
        return "one case = one symbol sequence; non-trivial = contains a nested heading or an include together with a top-level heading"

    def cases(self):
        for n in range(self.m + 1):
            for seq in itertools.product(MIXED, repeat=n):
                yield list(seq)

    def run(self, seq):
        d, doc, stream, r = self.execute(seq)
        viol = compare(d, doc, stream, r)
        # the surrounding structure is unaffected by nested headings: same sections as the sequence without them
        if any(s[0] in "QLNMTSD" for s in seq):
            d2, doc2, stream2, r2 = self.execute([s for s in seq if s[0] not in "QLNMTSD"])
            a = [(t, p) for t, p, _ in observe(doc)[2]]
            b = [(t, p) for t, p, _ in observe(doc2)[2]]
            # titles carry the position index, compare shapes only
            if [p for _, p in a] != [p for _, p in b]:
                viol.append(violation("nested-affects-structure", {"clause": "nested-affects-structure"},
                                      f"section structure {a} differs from {b} obtained without the nested headings", text=d.text()))
        nt = any(s[0] in "QLNMTSDIJ" for s in seq) and any(s[0] == "H" for s in seq)
        return Obs(digest=([(t, p) for t, p, _ in observe(doc)[2]], stream.count("[myst.header]"), d.rubrics),
                   nontrivial=nt, violations=viol[:3], canon=(tuple(sorted(r._level_to_section)), seq[-1] if seq else ""))


class OffsetSystem(_Base):
    """heading-offset on every level, plus nested include inside containers (headings become rubrics)."""

    name = "include-offset"
    description = "include with heading-offset 0..5 after each prefix of <= 2 top-level headings; the same include inside a quote / note (rubrics with shifted level)"

    def bounds(self):
        return {"prefix": 2, "offsets": 6}

    def rule(self):
        return "one case = (prefix levels, offset, container); non-trivial = always"

    def cases(self):
        for n in range(3):
            for lv in itertools.product((1, 2, 4), repeat=n):
                for off in range(6):
                    for cont in ("top", "note", "quote-note"):
                        yield [list(lv), off, cont]

    def run(self, case):
        lv, off, cont = case
        d = Doc(self.dir)
        for l in lv:
            d.add(f"H{l}p")
        if cont == "top":
            d.files["inc.md"] = Doc.INC
            if 2 + off <= 6 or True:
                d.model.heading(1 + off, "IA", None)
                d.model.para("IPA")
                d.model.heading(2 + off, "IB", None)
                d.model.para("IPB")
            d.lines += ["```{include} inc.md", f":heading-offset: {off}", "```", ""]
        elif cont == "note":
            d.rubrics += [("IA", 1 + off), ("IB", 2 + off)]
            d.lines += ["````{note}", "```{include} inc.md", f":heading-offset: {off}", "```", "````", ""]
        else:
            d.rubrics += [("IA", 1 + off), ("IB", 2 + off)]
            d.lines += ["> ````{note}", "> ```{include} inc.md", f"> :heading-offset: {off}", "> ```", "> ````", ""]
        d.add("H2p")
        doc, stream, r = render(d.text(), str(self.dir / "index.md"))
        viol = compare(d, doc, stream, r)
        return Obs(digest=([(t, p) for t, p, _ in observe(doc)[2]], stream.count("[myst.header]"), d.rubrics), violations=viol[:3])


class ContainerSystem(_Base):
    """programs = every content directive class of the docutils registry and the in-process Sphinx registry."""

    name = "containers"
    description = ("every registered directive class that takes content (docutils + Sphinx registries, `only` excluded) with a heading of level 1/2/3 "
                   "in its body, between two top-level headings: no section may appear below a non-section and the outer nesting is unchanged")

    def prepare(self, ctx):
        super().prepare(ctx)
        from .c08 import directive_classes, sphinx_classes

        allc = directive_classes()
        allc.update(sphinx_classes(ctx.scratch))
        self.classes = {}
        seen = set()
        for key, cls in sorted(allc.items()):
            name = key.split(":", 1)[1]
            if not cls.has_content or id(cls) in seen or name in ("only", "include", "eval-rst"):
                continue
            if key.startswith("sx:") and ":" in name:
                continue  # domain directives need a Sphinx environment; the docutils-level ones are enough for the renderer path
            seen.add(id(cls))
            self.classes[name] = cls
        self.names = sorted(self.classes)

    def bounds(self):
        return {"classes": len(getattr(self, "names", [])), "levels": 3}

    def rule(self):
        return "one case = (directive name, nested heading level); non-trivial = the directive's output contains the nested heading text"

    def cases(self):
        for n in self.names:
            for lvl in (1, 2, 3):
                yield [n, lvl]

    def run(self, case):
        name, lvl = case
        cls = self.classes[name]
        args = " ".join(["x"] * cls.required_arguments)
        text = f"# A\n\nPA\n\n## B\n\n````{{{name}}} {args}\n" + "#" * lvl + " INNER\n\nbody\n````\n\nPB\n\n## C\n\nPC\n"
        try:
            doc, stream, r = render(text, str(self.dir / "index.md"))
        except Exception as exc:  # totality is C01's clause; a crash here is reported but classified separately
            return Obs(digest=("exc", type(exc).__name__), nontrivial=False, stats={"raised": 1})
        viol = []
        secs, index, obs = observe(doc)
        shape = [(t, p) for t, p, _ in obs if t in ("A", "B", "C")]
        if shape != [("A", -1), ("B", 0), ("C", 0)]:
            viol.append(violation("nested-affects-structure", {"clause": "nested-affects-structure", "directive": name},
                                  f"outer sections {[(t, p) for t, p, _ in obs]} (expected A, B under A, C under A) with a heading inside {{{name}}}",
                                  text=text, doctree=doc.pformat()[:2000]))
        for t, p, pk in obs:
            if t == "INNER":
                viol.append(violation("section-in-container", {"clause": "section-in-container", "directive": name},
                                      f"heading inside the body of {{{name}}} opened a section", text=text, doctree=doc.pformat()[:2000]))
        for node in doc.findall(nodes.section):
            anc = node.parent
            while anc is not None and not isinstance(anc, nodes.document):
                if not isinstance(anc, nodes.section):
                    viol.append(violation("section-in-container", {"clause": "section-in-container", "directive": name},
                                          f"section below a {type(anc).__name__}", text=text))
                    break
                anc = anc.parent
        pb = [p for p in doc.findall(nodes.paragraph) if p.astext() == "PB"]
        if pb and not (isinstance(pb[0].parent, nodes.section) and pb[0].parent[0].astext() == "B"):
            viol.append(violation("nested-affects-structure", {"clause": "paragraph-after-container", "directive": name},
                                  f"the paragraph after {{{name}}} is not under section B", text=text))
        rub = [x for x in doc.findall(nodes.rubric) if x.astext() == "INNER"]
        if rub and rub[0].get("level") != lvl:
            viol.append(violation("rubric", {"clause": "rubric-level", "directive": name},
                                  f"rubric level {rub[0].get('level')}, heading level {lvl}", text=text))
        return Obs(digest=(name, lvl, bool(rub), shape), nontrivial="INNER" in doc.astext(), violations=viol[:3])


class FixSystem(FixpointSystem, _Base):
    name = "fixpoint"
    description = "BFS over canonical renderer states (set of open heading levels read from _level_to_section) x {H1..H6} until no new state appears"

    def symbols(self):
        return [1, 2, 3, 4, 5, 6]

    def rule(self):
        return "a history is expanded only if its open-level set is new; every executed history is compared with the stack model"

    def bounds(self):
        return {"max_states": self.max_states}

    def run(self, hist):
        d, doc, stream, r = self.execute([f"H{l}p" for l in hist])
        viol = compare(d, doc, stream, r)
        return Obs(digest=(tuple(hist[-3:]), tuple(sorted(r._level_to_section))), canon=tuple(sorted(r._level_to_section)),
                   violations=viol[:3], nontrivial=len(hist) >= 2)


def systems(tier):
    return [LevelSystem(tier), TitleHeaderSystem(tier), MixedSystem(tier), OffsetSystem(tier), ContainerSystem(tier), FixSystem(tier)]
