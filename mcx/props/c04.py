"""C04 — nodes and warnings carry the true source line, at any nesting depth.

System (DESIGN.md §4 C04): documents are *shapes* — a leaf carrying a unique marker word, wrapped in <= d nested
wrappers (block quote, bullet / ordered item, ::: div, backtick / colon directive with every option-block layout
and blank-line placement, include of a generated file).  The generator emits the text line by line and therefore
knows the 1-based first line of every construct: that bookkeeping is the reference model.
"""

from __future__ import annotations

import itertools
import re

from docutils import nodes

from ..drivers import docutils_doctree
from ..engine import Obs, System, violation

PROPERTY_ID = "C04"
LEVEL = "model_checking"
ASSUMPTIONS = [
    "reference model = the generator's own line bookkeeping (each construct's first line is known by construction)",
    "an outer fence is strictly longer than any fence inside it; a directive body never starts with option-looking text unless that layout is under test",
    "container nodes checked: block_quote, bullet_list/enumerated_list, list_item, admonition-type directive output; leaf nodes: paragraph, title, rubric, literal_block, target-following paragraph",
    "warnings: exactly one stream line naming the marker, prefixed '<source>:<line>:'",
    "docutils front end, full pipeline, doctitle_xform off",
]

EXT = ["colon_fence", "deflist", "fieldlist", "attrs_block"]


class Gen:
    def __init__(self):
        self.n = 0

    def mk(self):
        self.n += 1
        return f"MK{self.n}"

    # a block = (lines, marks, containers, feats); marks: (marker, rel line, kind, file or None); containers: (marker, rel line, node kind)
    def leaf(self, kind):
        m = self.mk()
        if kind == "para":
            return [m + " text"], [(m, 0, "paragraph")]
        if kind == "para2":
            return [m + " text", "second line"], [(m, 0, "paragraph")]
        if kind == "head":
            return ["## " + m], [(m, 0, "heading")]
        if kind == "setext":  # a setext heading spans its text lines and the underline: the node belongs on the FIRST one
            return [m + " title", "continued", "==="], [(m, 0, "heading")]
        if kind == "code":
            return ["```py", m, "```"], [(m, 0, "literal_block")]
        if kind == "tgt":
            return [f"({m.lower()})=", m + " after target"], [(m, 1, "paragraph")]
        if kind == "list":
            return ["- " + m, "- item"], [(m, 0, "paragraph"), (m, 0, "c:bullet_list"), (m, 0, "c:list_item")]
        if kind == "tightlist":
            return ["- " + m, "  - sub" + m], [(m, 0, "paragraph"), ("sub" + m, 1, "paragraph"), (m, 0, "c:bullet_list"), (m, 0, "c:list_item")]
        if kind == "unkdir":
            return ["```{" + m.lower() + "}", "```"], [(m.lower(), 0, "warn")]
        if kind == "unkrole":
            return ["{" + m.lower() + "}`x` tail"], [(m.lower(), 0, "warn")]
        if kind == "optwarn":
            return ["```{note}", f":{m.lower()}: 1", "", "body of note", "```"], [(m.lower(), 0, "warn")]
        if kind == "firstline":  # body text on the argument line of an argument-less directive
            return ["```{note} " + m + " first", "```"], [(m, 0, "paragraph"), (m, 0, "c:directive")]
        if kind == "firstline2":
            return ["```{note} " + m + " first", "", "sub" + m + " second para", "```"], [(m, 0, "paragraph"), ("sub" + m, 2, "paragraph"), (m, 0, "c:directive")]
        if kind == "epigraph":  # directive output built by MyST's own block-quote splitter: quote paragraph + attribution
            return ["```{epigraph}", m + " quoted", "", "-- sub" + m + " attributed", "```"], [(m, 1, "paragraph"), ("sub" + m, 3, "attribution"), (m, 1, "c:block_quote")]
        if kind == "epigraph-blank":  # the same with a blank line between the fence and the body
            return (["```{epigraph}", "", m + " quoted", "", "-- sub" + m + " attributed", "```"],
                    [(m, 2, "paragraph"), ("sub" + m, 4, "attribution"), (m, 2, "c:block_quote")])
        if kind == "quotepara":
            return ["> " + m + " quoted"], [(m, 0, "paragraph"), (m, 0, "c:block_quote")]
        raise ValueError(kind)


LEAVES_Q = ["para", "para2", "head", "setext", "code", "tgt", "list", "tightlist", "unkdir", "unkrole", "optwarn", "quotepara", "firstline", "firstline2", "epigraph", "epigraph-blank"]


def parse_dir(kind):
    _, fence, opts, blank_after, blank_before, name = kind.split("|")
    return fence, opts, blank_after, blank_before, name


def wrap(gen, kind, inner, depth, files):
    lines, marks = inner
    if kind == "quote":
        first = marks[0][0]
        return ["> " + l if l else ">" for l in lines], marks + [(first, 0, "c:block_quote")]
    if kind == "bullet":
        first = marks[0][0]
        return [("- " if i == 0 else "  ") + l if l else "" for i, l in enumerate(lines)], marks + [(first, 0, "c:bullet_list"), (first, 0, "c:list_item")]
    if kind == "ordered":
        first = marks[0][0]
        return [("1. " if i == 0 else "   ") + l if l else "" for i, l in enumerate(lines)], marks + [(first, 0, "c:enumerated_list"), (first, 0, "c:list_item")]
    if kind == "div":
        f = ":" * (4 + depth)
        return [f] + lines + [f], [(m, i + 1, k, *r) if not (r and r[0]) else (m, i, k, r[0]) for m, i, k, *r in marks]
    if kind == "div-blank":  # a plain container whose body starts with two blank lines
        f = ":" * (4 + depth)
        return [f + "box", "", ""] + lines + [f], [(m, i + 3, k, *r) if not (r and r[0]) else (m, i, k, r[0]) for m, i, k, *r in marks]
    if kind.startswith("inc"):
        # include of a generated file; optionally with :start-line:
        skip = 2 if kind == "inc-start" else 3 if kind == "inc-after" else 5 if kind == "inc-start-after" else 0
        name = f"inc{len(files)}.md"
        if kind == "inc-start-after":
            # both options: two lines dropped by :start-line:, three more up to the marker
            files[name] = "\n".join(["dropped A", "dropped B", "skipped line one", "", "a longer skipped line with the STARTMARK"] + lines) + "\n"
            out = ["```{include} " + name, ":start-line: 2", ":start-after: STARTMARK", "```"]
            return out, [(m, i + skip, k, (r[0] if r and r[0] else name)) if not (r and r[0]) else (m, i, k, r[0]) for m, i, k, *r in marks]
        if kind == "inc-tail":
            # the included file goes on after the inner block (after a nested include the rest of THIS file must still name this file)
            tm = gen.mk().replace("MK", "FILETAILMK")
            files[name] = "\n".join(lines + ["", tm + " rest of the included file"]) + "\n"
            out = ["```{include} " + name, "```"]
            return out, ([(m, i, k, (r[0] if r and r[0] else name)) if not (r and r[0]) else (m, i, k, r[0]) for m, i, k, *r in marks]
                         + [(tm, len(lines) + 1, "paragraph", name)])
        if kind == "inc-after":
            # :start-after: a marker that ends line 3 of the file (the rest of that line and line 3's break are skipped text)
            files[name] = "\n".join(["skipped line one", "", "a longer skipped line with the STARTMARK"] + lines) + "\n"
            out = ["```{include} " + name, ":start-after: STARTMARK", "```"]
            return out, [(m, i + skip, k, (r[0] if r and r[0] else name)) if not (r and r[0]) else (m, i, k, r[0]) for m, i, k, *r in marks]
        files[name] = "\n".join(["skipped line"] * skip + lines) + "\n"
        out = ["```{include} " + name] + ([f":start-line: {skip}"] if skip else []) + ["```"]
        return out, [(m, i + skip, k, (r[0] if r and r[0] else name)) if not (r and r[0]) else (m, i, k, r[0]) for m, i, k, *r in marks]
    if kind.startswith("dir"):
        fence, opts, blank_after, blank_before, name = parse_dir(kind)
        f = fence * (4 + depth)
        head = [f + "{" + name + "}" + (" Title" if name == "admonition" else "")]
        o = {"none": [], "one": [":class: c"], "two": [":class: c", ":name: n" + gen.mk().lower()], "yaml": ["---", "class: c", "---"],
             "yamlblank": ["---", "class: c", "", "---"]}[opts]
        pre = head + o + ([""] * int(blank_after))
        post = ([""] if blank_before == "1" else []) + [f]
        first = marks[0][0]
        inside = [(m, i + len(pre), k, *r) if not (r and r[0]) else (m, i, k, r[0]) for m, i, k, *r in marks]
        return pre + lines + post, inside + [(first, 0, "c:directive")]
    raise ValueError(kind)


DIRS_FULL = [f"dir|{f}|{o}|{ba}|{bb}|{n}" for f in "`:" for o in ("none", "one", "two", "yaml", "yamlblank") for ba in "012" for bb in "01" for n in ("note", "admonition")]
DIRS_SMALL = [f"dir|{f}|{o}|{ba}|{bb}|note" for f in "`:" for o in ("none", "one", "yaml") for ba, bb in (("0", "0"), ("1", "1"), ("2", "0"))]
BASIC = ["quote", "bullet", "ordered", "div", "div-blank", "inc", "inc-tail", "inc-start", "inc-after", "inc-start-after"]


def features(ws, leafkind):
    """root-cause features of a shape (used only to keep known-finding signatures narrow)"""
    feats = set()
    if leafkind.startswith("firstline"):
        feats.add("body-on-argument-line")
    # ws is outermost-first
    for i, w in enumerate(ws):
        inner_first = ws[i + 1] if i + 1 < len(ws) else None
        if w.startswith("dir"):
            fence, opts, ba, bb, name = parse_dir(w)
            if fence == ":" and opts == "none" and ba == "0" and inner_first is not None and (inner_first in ("div", "div-blank") or (inner_first.startswith("dir|:"))):
                feats.add("colon-directive-body-starts-with-colon-fence")
        if w.startswith("inc"):
            feats.add("include")
    return tuple(sorted(feats))


class ShapeSystem(System):
    name = "shapes"

    def __init__(self, tier):
        super().__init__(tier)
        self.d = 2 if tier == "quick" else 3
        self.description = (f"{len(LEAVES_Q)} leaf kinds x all wrapper chains of depth <= {self.d}: depth <= 2 over {len(BASIC)} basic wrappers + "
                            f"{len(DIRS_FULL)} directive layouts (outer) x {len(BASIC) + len(DIRS_SMALL)} (inner); depth 3 over basic + {len(DIRS_SMALL)} layouts")

    def prepare(self, ctx):
        self.dir = ctx.scratch / "c04"
        self.dir.mkdir(exist_ok=True)

    def worker_init(self, wid):
        self.wdir = self.dir / f"w{wid}"
        self.wdir.mkdir(exist_ok=True)

    def bounds(self):
        return {"nesting": self.d, "leaf_kinds": len(LEAVES_Q), "directive_layouts": len(DIRS_FULL)}

    def alphabet(self):
        return {"leaves": LEAVES_Q, "wrappers": BASIC + DIRS_FULL}

    def rule(self):
        return "one case = (leaf kind, wrapper chain outermost-first); non-trivial = at least one wrapper"

    def cases(self):
        full = BASIC + DIRS_FULL
        small = BASIC + DIRS_SMALL
        for lk in LEAVES_Q:
            yield [lk, []]
            for w in full:
                yield [lk, [w]]
            for w1 in full:
                for w2 in small:
                    yield [lk, [w1, w2]]
            if self.d >= 3:
                for ws in itertools.product(small, repeat=3):
                    yield [lk, list(ws)]

    def build(self, case):
        lk, ws = case
        gen = Gen()
        files = {}
        blk = gen.leaf(lk)
        blk = (blk[0], [(m, i, k, None) for m, i, k in blk[1]])
        ok = True
        for depth, wk in enumerate(reversed(ws)):
            if wk.startswith("dir"):
                fence, opts, ba, bb, nm = parse_dir(wk)
                first = blk[0][0] if blk[0] else ""
                if opts == "none" and ba == "0" and (first.startswith("---") or (first.startswith(":") and not (fence == ":" and first.startswith(":::")))):
                    ok = False
                if opts in ("one", "two") and ba == "0" and first.startswith(":"):
                    ok = False  # a ':'-line directly after a ':key:' block is documented to belong to that block
            lines, marks = wrap(gen, wk, blk, depth, files)
            blk = (lines, [(m, i, k, (r[0] if r else None)) for m, i, k, *r in marks])
        lines = ["PRE paragraph", ""] + blk[0]
        marks = [(m, (i + 2) if f is None else i, k, f) for m, i, k, f in blk[1]]
        # a sibling paragraph AFTER the block, back in the main file (its line and its source must be the main file's)
        tail = gen.mk().replace("MK", "TAILMK")
        marks.append((tail, len(lines) + 1, "paragraph", None))
        lines = lines + ["", tail + " tail paragraph"]
        # ... and a warning raised by the main file after the block (its prefix must name the main file and its own line)
        twarn = gen.mk().lower().replace("mk", "tailwarn")
        marks.append((twarn, len(lines) + 1, "warn", None))
        lines = lines + ["", "{" + twarn + "}`x` after"]
        return ok, lines, marks, files

    def render(self, text, files):
        wdir = getattr(self, "wdir", None) or self.dir
        for name, content in files.items():
            (wdir / name).write_text(content)
        src = str(wdir / "x.md")
        d, w = docutils_doctree(text, {"myst_enable_extensions": EXT}, source_path=src)
        return d, w, src, wdir

    def run(self, case):
        lk, ws = case
        ok, lines, marks, files = self.build(case)
        if not ok:
            return Obs(digest="skipped", nontrivial=False, stats={"grammar_skipped": 1})
        text = "\n".join(lines) + "\n"
        d, w, src, wdir = self.render(text, files)
        feats = features(ws, lk)
        viol = []
        dig = []

        def bad(kind, m, exp, got, file, what):
            delta = (got - exp) if isinstance(got, int) and isinstance(exp, int) else ("wrong-source" if what.endswith("source") else str(got))
            # narrow classification for the two suite-pinned deviations: covered only if the delta is exactly the sum of their known deltas
            causes = []
            if file is not None:
                causes.append("included-file-lines-plus-one")
            if lk.startswith("firstline") and kind == "paragraph" and not m.startswith(("TAIL", "FILETAIL")):
                causes.append("body-on-argument-line-plus-one")
            if causes and delta == len(causes):
                sig = {"clause": "line", "explained_by": "+".join(causes)}
            else:
                sig = {"clause": "line", "kind": kind.split(":")[0] if kind.startswith("c:") else ("warning" if kind == "warn" else "node"),
                       "node": kind, "features": "+".join(feats), "delta": delta}
            viol.append(violation("line", sig,
                                  f"{what} of marker {m} ({kind}): line {got}, true line {exp}" + (f" in {file}" if file else "") + f" [shape {lk} in {ws}]",
                                  text=text, files=files))

        leafnodes = [n for n in d.findall(lambda n: isinstance(n, (nodes.paragraph, nodes.title, nodes.rubric, nodes.literal_block, nodes.attribution)))
                     if not isinstance(n.parent, nodes.system_message)]
        seen_cont = {}
        for m, i, k, f in marks:
            exp = i + 1
            expsrc = str(wdir / f) if f else src
            if k == "warn":
                hits = re.findall(r"^(.*?):(\d+): \((?:WARNING|ERROR)/\d\)[^\n]*" + re.escape(m), w, re.M | re.I)
                if len(hits) != 1:
                    bad(k, m, exp, f"{len(hits)} warning lines", f, "warning")
                else:
                    if int(hits[0][1]) != exp:
                        bad(k, m, exp, int(hits[0][1]), f, "warning")
                    if hits[0][0] != expsrc:  # (judged on its own: a wrong line must not hide a wrong file)
                        bad(k, m, expsrc, hits[0][0], f, "warning source")
                dig.append((k, hits[0][1] if len(hits) == 1 else len(hits)))
                continue
            found = [n for n in leafnodes if m in n.astext().split()]
            found = [n for n in found if not any((c is not n and c in found) for c in n.findall())]
            if not found:
                if not k.startswith("c:"):
                    bad(k, m, exp, None, f, "node")
                continue
            leaf = found[0]
            if k.startswith("c:"):
                want = k[2:]
                anc = leaf.parent
                chain = []
                while anc is not None and not isinstance(anc, nodes.document):
                    chain.append(anc)
                    anc = anc.parent
                if want == "directive":
                    cands = [a for a in chain if isinstance(a, nodes.Admonition)]
                else:
                    cands = [a for a in chain if a.tagname == want]
                # the container whose first marker is m: the outermost candidate whose text starts with ... (choose by line proximity is circular) ->
                # choose the candidate for which m is the FIRST marker word in document order
                sel = [a for a in cands if _first_marker(a) == m]
                j = seen_cont.get((m, k), 0)  # marks are listed innermost-first, the ancestor chain too
                seen_cont[(m, k)] = j + 1
                if j >= len(sel):
                    continue
                node = sel[j]
                if node.line != exp:
                    bad(k, m, exp, node.line, f, f"{want} node")
                dig.append((k, node.line))
                continue
            if leaf.line != exp:
                bad(k, m, exp, leaf.line, f, "node")
            if getattr(leaf, "source", None) not in (None, expsrc):
                bad(k, m, expsrc, leaf.source, f, "node source")
            dig.append((k, leaf.line))
        viol.sort(key=lambda v: "explained_by" in v["signature"])  # the suite-pinned deviations last: they must not crowd out anything else
        return Obs(digest=(lk, tuple(dig)), nontrivial=bool(ws), violations=viol[:5], canon=(lk, tuple(ws)))


class SphinxShapeSystem(ShapeSystem):
    """the same shapes read by an in-process Sphinx application: node lines in the stored doctree, file and line of every logged warning"""

    name = "shapes-sphinx"
    jobs = 8

    def __init__(self, tier):
        super().__init__(tier)
        self.description = (f"{len(LEAVES_Q)} leaf kinds x wrapper chains of depth <= 1 over all {len(BASIC) + len(DIRS_FULL)} wrappers (thorough: + depth 2 over the basic wrappers and "
                            f"{len(DIRS_SMALL)} layouts) through the Sphinx front end: the log line of every warning must name the real file and the true line")

    def prepare(self, ctx):
        self.dir = ctx.scratch / "c04sx"
        self.dir.mkdir(exist_ok=True)

    def worker_init(self, wid):
        from ..drivers import SphinxDriver

        self.drv = SphinxDriver(self.dir / f"w{wid}", conf=f"myst_enable_extensions={EXT!r}\n")
        self.wdir = self.drv.src

    def cases(self):
        full = BASIC + DIRS_FULL
        small = BASIC + DIRS_SMALL
        for lk in LEAVES_Q:
            yield [lk, []]
            for w in full:
                yield [lk, [w]]
            if self.tier != "quick":
                for w1 in small:
                    for w2 in small:
                        yield [lk, [w1, w2]]

    def render(self, text, files):
        if not hasattr(self, "drv"):
            self.worker_init(99)
        for name, content in files.items():
            (self.wdir / name).write_text(content)
        d, w = self.drv.read("x", text)
        # 'path:line: WARNING: msg [tag]' -> the docutils spelling the oracle reads
        w = re.sub(r"^(.*?:\d+): (WARNING|ERROR): ", lambda m: f"{m.group(1)}: ({m.group(2)}/2) ", re.sub(r"\x1b\[[0-9;]*m", "", w), flags=re.M)
        return d, w, str(self.wdir / "x.md"), self.wdir


def _first_marker(node):
    for t in node.findall(nodes.Text):
        for wd in t.astext().split():
            if re.fullmatch(r"(sub|TAIL|FILETAIL)?MK\d+", wd):
                return wd
    return None


def systems(tier):
    return [ShapeSystem(tier), SphinxShapeSystem(tier)]
