"""C14 — warnings: closed typed catalogue; suppression has no side effects.

Systems (DESIGN.md §4 C14):
  static     every warning-emitting call site in myst_parser/ (AST): the subtype is a catalogue member (or ref.footnote)
  docutils   trigger sets of size <= 2 (thorough 3) x suppress lists: run(S) = run(no suppression) minus exactly the tagged items
  sphinx     every Sphinx-reachable trigger x {tag, bare type, type.*}: same relation on log and stored doctree
"""

from __future__ import annotations

import ast
import itertools
import re
from pathlib import Path

from docutils import nodes

from ..drivers import docutils_doctree, docutils_parse_only
from ..engine import Obs, System, violation

PROPERTY_ID = "C14"
LEVEL = "model_checking"
ASSUMPTIONS = [
    "catalogue = members of myst_parser.warnings_.MystWarnings, plus the documented pair ref.footnote",
    "documents are framed (PRE paragraph, triggers, POST paragraph; doctitle_xform off) so that docutils' tree-shape-sensitive transforms cannot react to a vanished sibling",
    "DIRECTIVE_BODY has no call site, RENDER_METHOD cannot be reached by any document of the configured parser, and HTML_PARSE can no longer be triggered since tokenize_html is total (fix cf1af4b): the three are covered by the static system only",
    "untagged log/reporter calls are not 'MyST tags outside the catalogue': the static system flags direct reporter.warning calls except the pygments LexerError pass-through in create_highlighted_code_block, the untagged docutils-policy message 'Raw content disabled.' in Parser.parse and the configuration notice of sphinx_ext/mathjax.py, and ignores the documentation-helper module _docs.py",
    "docutils'/Sphinx' own warnings (other type strings) are not MyST tags",
    "Sphinx: keep_warnings=True so that system_message nodes stay in the stored doctree; source paths normalised",
]

from myst_parser.warnings_ import MystWarnings  # noqa: E402

CATALOGUE = {"myst." + m.value for m in MystWarnings} | {"ref.footnote"}
EXT = ["colon_fence", "deflist", "fieldlist", "strikethrough", "substitution", "attrs_inline", "attrs_block", "html_image", "html_admonition", "dollarmath"]

TRIG = {
    "not_supported": "<path:a.txt>\n",
    "duplicate_def": "[r]: u\n\n[r]: v\n",
    "header": "#### h4\n\nunder h4\n",
    "directive_parse": "```{note} a\n:class: x\n\nb\n```\n",
    "directive_option": "```{note}\n:bogus: 1\n\nbody\n```\n",
    "directive_comments": "```{note}\n:class: x # c\n\nb\n```\n",
    "directive_unknown": "```{nodir}\ncontent\n```\n",
    "role_unknown": "{norole}`x`\n",
    "role_in_heading": "## Head {norole}`x` tail\n\nunder head\n",
    "attr_in_heading": "## Pic ![a](b){width=1x} title\n",
    "xref_missing": "[txt](#nope)\n",
    "xref_missing_empty": "[](#nope2)\n",
    "inv_retrieval": "[](inv:#zzz)\n",
    "iref_ambiguous": "[](inv:good#dup*)\n",
    "strikethrough": "~~s~~\n",
    "attribute": "![a](b){width=1x}\n",
    "substitution": "{{ undefined_var }}\n",
    "footnote": "[^u]: unref\n",
    "slug_link_warned_heading": "## Warned {norole}`x` head\n\nunder\n\n[](#warned--head)\n",  # empty link text filled from a heading that holds a warning
    "deflist_term": "{#dlid}\nTerm {norole}`x`\n: definition\n\n[](#dlid)\n",  # implicit link text taken from a term that holds a warning
    "field_name": "{#flid}\n:field {norole}`y`: body\n\n[](#flid)\n",
    "deprecated_ext": "![a](b.png){width=10px}\n",  # needs attrs_image among the extensions (added by run)
    "heading_slug": None,  # needs a raising slug function (separate setting)
    "topmatter": None,  # must be first in the document: handled by the frame
}
EXPECT = {
    "not_supported": {"myst.not_supported"}, "duplicate_def": {"myst.duplicate_def"}, "header": {"myst.header"},
    "directive_parse": {"myst.directive_parse"}, "directive_option": {"myst.directive_option"}, "directive_comments": {"myst.directive_comments"},
    "directive_unknown": {"myst.directive_unknown"}, "role_unknown": {"myst.role_unknown"}, "role_in_heading": {"myst.role_unknown"}, "attr_in_heading": {"myst.attribute"}, "xref_missing": {"myst.xref_missing"},
    "xref_missing_empty": {"myst.xref_missing"},
    "inv_retrieval": {"myst.inv_retrieval", "myst.iref_missing"}, "iref_ambiguous": {"myst.iref_ambiguous", "myst.inv_retrieval"},
    "strikethrough": {"myst.strikethrough"}, "html": {"myst.html"},
    "attribute": {"myst.attribute"}, "substitution": {"myst.substitution"}, "footnote": {"ref.footnote"},
    "topmatter": {"myst.topmatter"}, "heading_slug": {"myst.heading_slug"},
    "slug_link_warned_heading": {"myst.role_unknown"}, "deflist_term": {"myst.role_unknown"}, "field_name": {"myst.role_unknown"}, "deprecated_ext": {"myst.deprecated"},
}


def _in_function(tree, call, fname):
    for fn in ast.walk(tree):
        if isinstance(fn, (ast.FunctionDef, ast.AsyncFunctionDef)) and fn.name == fname:
            if fn.lineno <= call.lineno <= (fn.end_lineno or fn.lineno):
                return True
    return False


def tags(text):
    return re.findall(r"\[([a-z_]+\.[a-z_]+)\]\s*$", text, re.M)


def records(log):
    """split a warning stream into records (a record starts with '<source>:<line>: (LEVEL/n)' and may span lines)"""
    out = []
    for ln in log.splitlines(keepends=True):
        if re.match(r"^\S.*?:(\d+:)? \((DEBUG|INFO|WARNING|ERROR|SEVERE)/\d\)", ln) or not out:
            out.append(ln)
        else:
            out[-1] += ln
    return out


def match(tag, sup):
    ty, st = tag.split(".")
    for s in sup:
        a, _, b = s.partition(".")
        if a == ty and b in ("", st, "*"):
            return True
    return False


def strip_nodes(doc, sup):
    doc = doc.deepcopy()
    for sm in list(doc.findall(nodes.system_message)):
        t = tags(sm.astext())
        if t and match(t[0], sup):
            sm.parent.remove(sm)
    return doc.pformat()


def _raise_slug(title):
    raise RuntimeError("slug failure")


# ------------------------------------------------------------------------------------------------
class StaticSystem(System):
    """All warning call sites in the package source (finite set of 'programs')."""

    name = "static"
    description = "AST of every module in myst_parser/: each create_warning / log_warning / logger.warning(type=...) / ParseWarnings(...) call names a catalogue member"

    def prepare(self, ctx):
        import myst_parser

        self.root = Path(myst_parser.__file__).parent
        self.files = sorted(str(p.relative_to(self.root)) for p in self.root.rglob("*.py"))

    def bounds(self):
        return {"modules": len(getattr(self, "files", []))}

    def rule(self):
        return "one case = one module; transitions = warning call sites found in it; non-trivial = the module has >= 1 call site"

    def cases(self):
        yield from self.files

    def run(self, rel):
        src = (self.root / rel).read_text()
        tree = ast.parse(src)
        viol = []
        sites = 0
        members = {m.name for m in MystWarnings}
        values = {m.value for m in MystWarnings}

        def subtype_ok(node):
            """node: AST of the subtype argument"""
            if isinstance(node, ast.Attribute) and isinstance(node.value, ast.Name) and node.value.id == "MystWarnings":
                return node.attr in members, f"MystWarnings.{node.attr}"
            if isinstance(node, ast.Constant) and isinstance(node.value, str):
                return None, node.value  # literal: decided together with wtype
            if isinstance(node, ast.Name) or isinstance(node, ast.Attribute) or isinstance(node, ast.Subscript):
                return "dynamic", ast.unparse(node)
            return False, ast.unparse(node)

        for node in ast.walk(tree):
            if not isinstance(node, ast.Call):
                continue
            fn = node.func
            fname = fn.attr if isinstance(fn, ast.Attribute) else fn.id if isinstance(fn, ast.Name) else ""
            kw = {k.arg: k.value for k in node.keywords if k.arg}
            if fname == "create_warning":
                sites += 1
                is_method = isinstance(fn, ast.Attribute)
                args = node.args
                sub = kw.get("subtype") or (args[1] if is_method and len(args) > 1 else args[2] if not is_method and len(args) > 2 else None)
                if sub is None:
                    viol.append(violation("static", {"clause": "static", "kind": "no-subtype"}, f"{rel}:{node.lineno} create_warning without a subtype"))
                    continue
                ok, what = subtype_ok(sub)
                wtype = kw.get("wtype")
                if ok is None:  # string literal
                    wt = wtype.value if isinstance(wtype, ast.Constant) else "myst"
                    if f"{wt}.{what}" not in CATALOGUE:
                        viol.append(violation("static", {"clause": "static", "kind": "literal-outside-catalogue"},
                                              f"{rel}:{node.lineno} create_warning tags [{wt}.{what}], not in the catalogue"))
                elif ok is False:
                    viol.append(violation("static", {"clause": "static", "kind": "not-a-member"}, f"{rel}:{node.lineno} subtype {what} is not a MystWarnings member"))
            elif fname == "log_warning":
                sites += 1
                args = node.args
                sub = kw.get("subtype") or (args[2] if len(args) > 2 else None)
                ok, what = subtype_ok(sub) if sub is not None else (False, "?")
                if ok is False:
                    viol.append(violation("static", {"clause": "static", "kind": "not-a-member"}, f"{rel}:{node.lineno} log_warning subtype {what}"))
            elif fname == "warning" and isinstance(fn, ast.Attribute):
                recv = ast.unparse(fn.value)
                if rel == "_docs.py":
                    continue
                if rel == "sphinx_ext/mathjax.py" and _in_function(tree, node, "log_override_warning"):
                    continue  # configuration notice with its own is_suppressed_warning("myst", "mathjax") test; prints no tag
                if recv.lower() in ("logger", "log", "sphinx_logger") or recv.endswith("LOGGER"):
                    sites += 1
                    if "type" not in kw or "subtype" not in kw:
                        viol.append(violation("static", {"clause": "static", "kind": "untyped-log"}, f"{rel}:{node.lineno} {recv}.warning(...) without type/subtype"))
                    else:
                        t = kw["type"]
                        st = kw["subtype"]
                        if isinstance(t, ast.Constant) and isinstance(st, ast.Constant):
                            if f"{t.value}.{st.value}" not in CATALOGUE:
                                viol.append(violation("static", {"clause": "static", "kind": "literal-outside-catalogue"},
                                                      f"{rel}:{node.lineno} logs [{t.value}.{st.value}], not in the catalogue"))
                        elif isinstance(st, ast.Attribute) and isinstance(st.value, ast.Name) and st.value.id == "MystWarnings":
                            # the logging API formats the subtype with str(): an enum member prints 'MystWarnings.X', not its catalogue value
                            viol.append(violation("static", {"clause": "static", "kind": "enum-member-as-subtype"},
                                                  f"{rel}:{node.lineno} passes the enum member MystWarnings.{st.attr} as log subtype (its .value is the catalogue tag)"))
                        elif isinstance(st, ast.Attribute) and st.attr == "value" and isinstance(st.value, ast.Attribute) and isinstance(st.value.value, ast.Name) \
                                and st.value.value.id == "MystWarnings" and st.value.attr not in members:
                            viol.append(violation("static", {"clause": "static", "kind": "not-a-member"}, f"{rel}:{node.lineno} MystWarnings.{st.value.attr} is not a member"))
                elif recv.endswith("reporter") and "warnings_.py" not in rel and not _in_function(tree, node, "create_highlighted_code_block") and not (rel == "parsers/docutils_.py" and _in_function(tree, node, "parse")):
                    # a direct docutils report bypasses the typed catalogue
                    sites += 1
                    viol.append(violation("static", {"clause": "static", "kind": "untyped-reporter-call"},
                                          f"{rel}:{node.lineno} {recv}.warning(...) bypasses create_warning (no [type.subtype] tag, not suppressible)"))
            elif fname == "ParseWarnings":
                sites += 1
                sub = kw.get("type") or (node.args[2] if len(node.args) > 2 else None)
                if sub is not None:
                    ok, what = subtype_ok(sub)
                    if ok is False or ok is None:
                        viol.append(violation("static", {"clause": "static", "kind": "not-a-member"}, f"{rel}:{node.lineno} ParseWarnings type {what}"))
        return Obs(digest=(rel, sites), nontrivial=sites > 0, violations=viol, transitions=max(sites, 1), validated=sites, stats={"call_sites": sites})


# ------------------------------------------------------------------------------------------------
class DocutilsSystem(System):
    name = "docutils"
    chunk = 4

    def __init__(self, tier):
        super().__init__(tier)
        self.k = 2 if tier == "quick" else 3
        self.keys = [k for k, v in TRIG.items() if v]
        self.description = (f"all trigger sets of size <= {self.k} from {len(self.keys)} document-reachable triggers (+ front-matter and slug-function triggers), "
                            "plain / nested in a quote / nested in a directive, under every single suppress tag, the bare type, type.* "
                            + ("and every pair of tags" if tier != "quick" else "and a foreign tag"))

    def prepare(self, ctx):
        from ..models.invfile import make_v2

        self.dir = ctx.scratch / "c14"
        self.dir.mkdir(exist_ok=True)
        (self.dir / "bad.inv").write_text("x")
        (self.dir / "good.inv").write_bytes(make_v2("P", "1", ["dup1 std:label -1 a.html#$ -", "dup2 std:label -1 b.html#$ -"]))
        self.settings = {
            "myst_enable_extensions": EXT, "myst_heading_anchors": 2,
            "myst_inventories": {"k": ["http://x", str(self.dir / "bad.inv")], "good": ["http://g", str(self.dir / "good.inv")]},
        }

    def bounds(self):
        return {"set_size": self.k, "triggers": len(self.keys) + 2}

    def alphabet(self):
        return {k: v for k, v in TRIG.items()}

    def rule(self):
        return "one case = (trigger set, nesting, topmatter?, slug-func?): all suppress lists are run on it (transitions); non-trivial = >= 2 distinct tags emitted"

    def cases(self):
        for n in range(1, self.k + 1):
            for combo in itertools.combinations(self.keys, n):
                for nest in ("plain", "quote", "directive"):
                    if n == self.k and self.k == 3 and nest != "plain":
                        continue
                    yield [list(combo), nest, False, False]
        for k in self.keys:
            yield [[k], "plain", True, False]
            yield [[k], "plain", False, True]
        yield [[], "plain", True, True]

    def text(self, combo, nest, topm, slug):
        body = "\n".join(TRIG[k] for k in combo)
        if nest == "quote":
            body = "\n".join("> " + l if l else ">" for l in body.splitlines()) + "\n"
        elif nest == "directive":
            body = "``````{tip}\n" + body + "``````\n"
        fm = "---\nmyst:\n  no_such_field: 1\n---\n" if topm else ""
        head = "# T\n\n## Sub *x*\n\n" if slug else "# T\n\n"
        return fm + head + "PRE\n\n" + body + "\nPOST\n"

    def run(self, case):
        combo, nest, topm, slug = case
        text = self.text(combo, nest, topm, slug)
        st = dict(self.settings)
        if slug:
            st["myst_heading_slug_func"] = _raise_slug
        if "deprecated_ext" in combo:
            st["myst_enable_extensions"] = EXT + ["attrs_image"]
        src = str(self.dir / "x.md")
        viol = []

        def bad(clause, msg, diff=None, **sig):
            viol.append(violation(clause, {"clause": clause, **sig}, f"triggers {combo} ({nest}): {msg}", text=text, diff=diff))

        def run2(sup):
            s = dict(st, myst_suppress_warnings=list(sup))
            d_post, w_post = docutils_doctree(text, s, source_path=src)
            d_pre, w_pre = docutils_parse_only(text, s, source_path=src)
            return d_post, w_post, d_pre, w_pre

        d0, w0, p0, pw0 = run2([])
        emitted = set(tags(w0))
        node_tags = {t for sm in d0.findall(nodes.system_message) for t in tags(sm.astext())}
        # (1) every trigger emits its tag(s); (2) nothing outside the catalogue
        want = set()
        for k in combo:
            if k == "header" and nest != "plain":
                continue  # a nested heading is a rubric and cannot skip a level
            want |= EXPECT[k]
        if topm:
            want |= EXPECT["topmatter"]
        if slug:
            want |= EXPECT["heading_slug"]
        if not want <= emitted:
            bad("emit", f"expected tags {sorted(want - emitted)} were not emitted (log has {sorted(emitted)})", missing="+".join(sorted(want - emitted)))
        for t in emitted | node_tags:
            if t.split(".")[0] in ("myst",) and t not in CATALOGUE:
                bad("catalogue", f"tag [{t}] is not in the documented catalogue", tag=t)
        for ln in w0.splitlines():
            if re.search(r"\((WARNING|ERROR|SEVERE)/\d\)", ln) and not tags(ln) and any(x in ln for x in ("myst", "MyST")):
                bad("catalogue", f"MyST warning without a tag: {ln[:160]}", tag="untagged")
        # (3) suppression relation
        sups = [[t] for t in sorted(emitted)] + [["myst"], ["myst.*"], ["ref"], ["other.tag"], ["myst.nonexistent"]]
        if self.tier != "quick" or len(combo) <= 1:
            sups += [list(p) for p in itertools.combinations(sorted(emitted), 2)]
            sups += [[a, b] for a in ("myst.zzz", "other") for b in sorted(emitted)]
        nrun = 1
        for sup in sups:
            nrun += 1
            d1, w1, p1, pw1 = run2(sup)
            exp_w = "".join(l + "\n" for l in w0.splitlines() if not (tags(l) and match(tags(l)[0], sup)))
            if w1 != exp_w:
                bad("suppress-log", f"suppress_warnings={sup}: log is {w1!r}, expected {exp_w!r}")
            if d1.pformat() != strip_nodes(d0, sup):
                bad("suppress-tree", f"suppress_warnings={sup}: the doctree changed beyond the removal of the tagged system messages",
                    cause=_cause(strip_nodes(d0, sup), d1.pformat()), diff=_diff(strip_nodes(d0, sup), d1.pformat()))
            if p1.pformat() != strip_nodes(p0, sup):
                bad("suppress-tree-pre", f"suppress_warnings={sup}: the pre-transform doctree changed beyond the removal of the tagged system messages",
                    cause=_cause(strip_nodes(p0, sup), p1.pformat()), diff=_diff(strip_nodes(p0, sup), p1.pformat()))
        return Obs(digest=(tuple(sorted(emitted)), tuple(sorted(node_tags))), nontrivial=len(emitted) >= 2, violations=viol[:4],
                   transitions=nrun, validated=nrun - 1, stats={"runs": nrun})


class SlotSystem(System):
    """the C01 template x atom product under the suppression relation: whatever warning a hostile value provokes, in whatever syntactic position"""

    name = "slots"
    chunk = 4

    def __init__(self, tier):
        super().__init__(tier)
        from . import c01

        self.T, self.A = c01.TEMPLATES, c01.ATOMS
        self.description = (f"{len(self.T)} one-slot templates x {len(self.A)} atoms (the C01 product): for every document that emits a tagged warning, "
                            "each emitted tag and the bare type 'myst' are suppressed in turn")

    def prepare(self, ctx):
        self.dir = ctx.scratch / "c14s"
        self.dir.mkdir(exist_ok=True)
        self.settings = {"myst_enable_extensions": EXT, "myst_heading_anchors": 2}

    def bounds(self):
        return {"templates": len(self.T), "atoms": len(self.A)}

    def rule(self):
        return "one case = (template, atom); transitions = suppressed re-runs; non-trivial = a tagged warning was emitted; an escaping exception is C01's"

    def cases(self):
        for t in range(len(self.T)):
            for a in range(len(self.A)):
                yield [t, a]

    def run(self, case):
        t, a = case
        body = self.T[t].replace("@", self.A[a])
        text = body if body.startswith("---") else "# T\n\nPRE\n\n" + body + "\nPOST\n"
        src = str(self.dir / "x.md")
        viol = []

        def bad(clause, msg, diff=None, **sig):
            viol.append(violation(clause, {"clause": clause, **sig}, f"template {t} atom {a}: {msg}", text=text, diff=diff))

        def run2(sup):
            s = dict(self.settings, myst_suppress_warnings=list(sup))
            return docutils_doctree(text, s, source_path=src)

        try:
            d0, w0 = run2([])
            emitted = sorted(set(tags(w0)))
            node_tags = {x for sm in d0.findall(nodes.system_message) for x in tags(sm.astext())}
            for x in set(emitted) | node_tags:
                if x.split(".")[0] == "myst" and x not in CATALOGUE:
                    bad("catalogue", f"tag [{x}] is not in the documented catalogue", tag=x)
            nrun = 1
            for sup in ([[x] for x in emitted] + [["myst"]] if emitted else []):
                nrun += 1
                d1, w1 = run2(sup)
                exp_w = "".join(r for r in records(w0) if not (tags(r) and match(tags(r)[-1], sup)))
                if w1 != exp_w:
                    bad("suppress-log", f"suppress_warnings={sup}: log is {w1!r}, expected {exp_w!r}")
                if d1.pformat() != strip_nodes(d0, sup):
                    bad("suppress-tree", f"suppress_warnings={sup}: the doctree changed beyond the removal of the tagged system messages",
                        cause=_cause(strip_nodes(d0, sup), d1.pformat()), diff=_diff(strip_nodes(d0, sup), d1.pformat()))
        except (Exception, RecursionError) as exc:
            return Obs(digest=("exc", type(exc).__name__), nontrivial=False, violations=viol[:2])
        return Obs(digest=(tuple(emitted), tuple(sorted(node_tags))), nontrivial=bool(emitted), violations=viol[:3], transitions=nrun, validated=nrun - 1)


def _cause(a, b):
    """Classify a tree difference narrowly, so that a known finding cannot hide a different one."""
    import difflib

    added, removed = [], []
    for ln in difflib.ndiff(a.splitlines(), b.splitlines()):
        if ln.startswith("+ "):
            added.append(ln[2:].strip())
        elif ln.startswith("- "):
            removed.append(ln[2:].strip())
    if not removed and added and all(x == '<inline classes="std std-ref">' or x.startswith("#") for x in added):
        return "missing-link-fallback-text-only-when-suppressed"
    return "other"


def _diff(a, b):
    import difflib

    return "\n".join(difflib.unified_diff(a.splitlines(), b.splitlines(), "expected", "observed", lineterm="", n=1))[:1500]


# ------------------------------------------------------------------------------------------------
SX_TRIG = {
    "topmatter": None,
    "duplicate_def": "[r]: u\n\n[r]: v\n",
    "header": "### h3\n",
    "directive_parse": "```{note} a\n:class: x\n\nb\n```\n",
    "directive_option": "```{note}\n:bogus: 1\n\nbody\n```\n",
    "directive_comments": "```{note}\n:class: x # c\n\nb\n```\n",
    "directive_unknown": "```{nodir}\ncontent\n```\n",
    "role_unknown": "{norole}`x`\n",
    "xref_missing": "[t](nodoc.md) [](#nope)\n",
    "iref_missing": "[](inv:#zzz)\n",
    "strikethrough": "~~s~~\n",
    "attribute": "![a](b.png){width=1x}\n",
    "substitution": "{{ undefined_var }}\n",
    "footnote": "[^u]: unref\n",
    "deprecated": "plain text, the trigger is `attrs_image` in conf.py\n",
    "domains": "[](#nolabel4)\n",  # conf.py registers a third-party domain without resolve_any_xref
    "mathjax": "$x$ and text\n",  # conf.py presets mathjax3_config['options']['processHtmlClass']: MyST reports the override (untagged; no tag outside the catalogue)
}
MATHJAX_CONF = "mathjax3_config = {'options': {'processHtmlClass': 'other-class'}}\n"
LEGACY_DOMAIN_CONF = ("from sphinx.domains import Domain\n\n\nclass LegacyDomain(Domain):\n    name = 'legacy'\n    label = 'Legacy'\n\n\n"
                      "def setup(app):\n    app.add_domain(LegacyDomain)\n")
SX_EXPECT = {"xref_missing": "myst.xref_missing", "iref_missing": "myst.iref_missing", "footnote": "ref.footnote", "mathjax": None}


class SphinxSystem(System):
    name = "sphinx"
    chunk = 1

    def __init__(self, tier):
        super().__init__(tier)
        self.keys = [k for k, v in SX_TRIG.items() if v]
        self.description = (f"{len(self.keys)} Sphinx-reachable triggers (framed document, one in-process html build per suppress list): "
                            "tag emitted; log and stored doctree under {tag, bare type, type.*} equal the unsuppressed ones minus the tagged items")

    def prepare(self, ctx):
        self.dir = ctx.scratch / "c14sx"
        self.dir.mkdir(exist_ok=True)

    def bounds(self):
        return {"triggers": len(self.keys), "suppress_lists": 3}

    def rule(self):
        return "one case = one trigger (4 builds); non-trivial = its tag is emitted"

    def cases(self):
        yield from self.keys

    def build(self, key, text, sup, n):
        from ..drivers import SphinxDriver

        conf = ("extensions=['myst_parser','sphinx.ext.intersphinx']\n"
                "myst_enable_extensions=['strikethrough','substitution','attrs_inline','html_image','html_admonition','colon_fence']\n"
                f"suppress_warnings={sup!r}+['image.not_readable']\nmyst_heading_anchors=2\nkeep_warnings=True\n")
        root = self.dir / f"{key}-{n}"
        d = SphinxDriver(root, conf="", files={"index.md": text}, build=False)
        (d.src / "conf.py").write_text(conf)
        d.close()
        d = SphinxDriver(root, conf=conf.replace("extensions=['myst_parser','sphinx.ext.intersphinx']\n", "extensions=['myst_parser','sphinx.ext.intersphinx']\n"), files={"index.md": text})
        (d.src / "conf.py").write_text(conf)
        w = d.warnings()
        return d

    def observe(self, key, text, sup, n):
        import shutil

        from sphinx.testing.util import SphinxTestApp

        src = self.dir / f"{key}-{n}" / "src"
        if src.parent.exists():
            shutil.rmtree(src.parent)
        src.mkdir(parents=True)
        (src / "conf.py").write_text(
            "extensions=['myst_parser','sphinx.ext.intersphinx']\n"
            "myst_enable_extensions=['strikethrough','substitution','attrs_inline','html_image','html_admonition','colon_fence'" + (",'attrs_image'" if key == "deprecated" else "") + (",'dollarmath'" if key == "mathjax" else "") + "]\n"
            f"suppress_warnings={sup!r}+['image.not_readable']\nmyst_heading_anchors=2\nkeep_warnings=True\n" + (LEGACY_DOMAIN_CONF if key == "domains" else "") + (MATHJAX_CONF if key == "mathjax" else ""))
        (src / "index.md").write_text(text)
        app = SphinxTestApp(srcdir=src, buildername="html")
        try:
            app.build()
            w = re.sub(r"\x1b\[[0-9;]*m", "", app._warning.getvalue()).replace(str(src), "<src>")
            dt = app.env.get_doctree("index")
            for n_ in dt.findall():
                if hasattr(n_, "attributes") and "source" in n_.attributes:
                    n_["source"] = str(n_["source"]).replace(str(src), "<src>")
            dt["source"] = "<src>/index.md"
        finally:
            app.cleanup()
            shutil.rmtree(src.parent, ignore_errors=True)
        return w, dt

    def run(self, key):
        text = "# T\n\nPRE\n\n" + SX_TRIG[key] + "\nPOST\n"
        viol = []
        w0, d0 = self.observe(key, text, [], 0)
        tg = sorted(set(tags(w0)))
        want = SX_EXPECT.get(key, "myst." + key)
        if want is None:
            if "is being overridden by myst-parser" not in w0:
                viol.append(violation("emit", {"clause": "emit", "front_end": "sphinx", "trigger": key}, f"Sphinx: trigger {key}: the override report is missing; log: {w0!r}", text=text))
        elif want not in tg:
            viol.append(violation("emit", {"clause": "emit", "front_end": "sphinx", "trigger": key}, f"Sphinx: trigger {key} did not emit [{want}]; log: {w0!r}", text=text))
        for t in tg:
            if t.startswith("myst.") and t not in CATALOGUE:
                viol.append(violation("catalogue", {"clause": "catalogue", "front_end": "sphinx", "tag": t}, f"Sphinx: tag [{t}] not in the catalogue"))
        n = 0
        if want is not None and want in tg:
            ty = want.split(".")[0]
            for sup in ([want], [ty], [ty + ".*"]):
                n += 1
                w1, d1 = self.observe(key, text, sup, n)
                exp_w = "".join(l + "\n" for l in w0.splitlines() if not (tags(l) and match(tags(l)[0], sup)))
                if w1 != exp_w:
                    viol.append(violation("suppress-log", {"clause": "suppress-log", "front_end": "sphinx", "trigger": key},
                                          f"Sphinx suppress_warnings={sup}: log {w1!r}, expected {exp_w!r}", text=text))
                if d1.pformat() != strip_nodes(d0, sup):
                    viol.append(violation("suppress-tree", {"clause": "suppress-tree", "front_end": "sphinx", "trigger": key},
                                          f"Sphinx suppress_warnings={sup}: stored doctree changed beyond the removal of the tagged system messages",
                                          text=text, diff=_diff(strip_nodes(d0, sup), d1.pformat())))
        return Obs(digest=(key, tuple(tg)), nontrivial=want is None or want in tg, violations=viol[:3], transitions=n + 1, validated=n)


def systems(tier):
    return [StaticSystem(tier), DocutilsSystem(tier), SlotSystem(tier), SphinxSystem(tier)]


def vacuity(results):
    errs = []
    for r in results:
        if r.name == "static" and r.stats.get("call_sites", 0) < 40:
            errs.append(f"static: only {r.stats.get('call_sites', 0)} warning call sites found (expected >= 40)")
    return errs
