"""C10 — heading anchors follow the GitHub slug rule, are unique, match myst-anchors.

Systems (DESIGN.md §4 C10):
  titles     all sequences of <= n heading titles from a colliding pool (level 1, also nested in quote/list)
  levels     all level assignments {1,2,3} for title sequences of length <= 3 x heading_anchors 0..3
  depth      fixed H1..H6 document x heading_anchors 0..7
  slugfunc   custom slug functions (object / dotted path / raising / constant / non-string) x title sequences
Reference model: GitHub rule + "first free of base, base-1, base-2, ..."; differential: myst_parser.cli.print_anchors.
"""

from __future__ import annotations

import io
import itertools
import re

from docutils import nodes

from ..engine import Obs, System, violation

PROPERTY_ID = "C10"
LEVEL = "model_checking"
ASSUMPTIONS = [
    "slug model = documented GitHub rule: lower-case, spaces -> '-', drop everything but word characters, CJK and '-'; uniqueness = first free of base, base-1, base-2, ... in order of appearance",
    "titles whose text has leading/trailing blanks (only after a skipped inline token such as an image) are unspecified for the rule clause; the myst-anchors differential still applies",
    "myst-anchors output = ids printed by myst_parser.cli.print_anchors for the same text and level",
    "docutils front end, full transform pipeline, doctitle_xform off",
]

from myst_parser.cli import print_anchors  # noqa: E402
from myst_parser.config.main import _test_slug_func  # noqa: E402

from ..drivers import docutils_doctree, parse_warnings  # noqa: E402

# (markdown, text+inline-code content)
POOL = [
    ("a", "a"), ("A", "A"), ("a-1", "a-1"), ("a 1", "a 1"), ("b", "b"), ("a!", "a!"), ("`a`", "a"), ("*a* b", "a b"),
    ("a_b", "a_b"), ("é", "é"), ("中", "中"), ("-a", "-a"), ("![i](u) a", " a"), ("<b>x</b> a", "x a"),
    ("a  b", "a  b"), ("a-1-1", "a-1-1"), ("[a](http://u) `b`", "a b"), ("a.b, c", "a.b, c"), ("!!!", "!!!"), ("a\nb", "ab"), ("a  \nc", "ac"), ("a {abbr}`x (y)` b", "a  b"), ("n[^f]", "n"),
]


def gh(t: str) -> str:
    return re.sub(r"[^\w一-鿿\- ]", "", t.lower().replace(" ", "-"))


def model_slugs(plains, func=gh):
    used, out = set(), []
    for p in plains:
        base = func(p)
        u, i = base, 1
        while u in used:
            u = f"{base}-{i}"
            i += 1
        used.add(u)
        out.append(u)
    return out


def cli_ids(scratch, text, level):
    f = scratch / "h.md"
    o = scratch / "h.out"
    f.write_text(text, encoding="utf8")
    print_anchors([str(f), "-l", str(level), "-o", str(o)])
    return re.findall(r'<h\d id="([^"]*)"', o.read_text(encoding="utf8"))


def headings(doc):
    """(title text, slug or None, ids, node) of sections and rubrics in document order"""
    out = []
    for n in doc.findall(lambda n: isinstance(n, (nodes.section, nodes.rubric))):
        title = n[0].astext() if isinstance(n, nodes.section) else n.astext()
        out.append((title, n.get("slug"), list(n["ids"]), n))
    return out


class _Base(System):
    def prepare(self, ctx):
        self.dir = ctx.scratch / f"c10-{self.name}"
        self.dir.mkdir(exist_ok=True)

    def worker_init(self, wid):
        self.wdir = self.dir / f"w{wid}"
        self.wdir.mkdir(exist_ok=True)

    def scratch(self):
        d = getattr(self, "wdir", None)
        if d is None:
            d = self.dir / "replay"
            d.mkdir(exist_ok=True)
        return d


def check_links(text, doc_slugs, settings, viol, bad):
    """clause (4): a document extended with [](#slug) for every slug resolves each link to its own heading"""
    # (an all-punctuation title has the EMPTY slug: its link is '[](#)')
    links = "".join(f"L{i} [](#{s})\n\n" for i, s in enumerate(doc_slugs) if s is not None and re.fullmatch(r"[\w\-一-鿿]*", s))
    if not links:
        return 0
    doc, warn = docutils_doctree(text + "\n" + links, settings)
    hs = headings(doc)
    byslug = {}
    for t, s, ids, n in hs:
        if s is not None:
            byslug.setdefault(s, ids)
    n = 0
    for p in doc.findall(nodes.paragraph):
        m = re.match(r"L(\d+) ", p.astext())
        if not m:
            continue
        slug = doc_slugs[int(m.group(1))]
        refs = list(p.findall(nodes.reference))
        n += 1
        if len(refs) != 1 or refs[0].get("refid") not in byslug.get(slug, []):
            bad("link", f"[](#{slug}) resolves to refid {refs[0].get('refid') if refs else None!r}, but the heading with slug {slug!r} has ids {byslug.get(slug)}",
                kind="wrong-target")
    if "xref_missing" in warn:
        bad("link", f"a '#slug' link to an assigned anchor is reported missing: {warn.strip().splitlines()[:2]}", kind="missing")
    return n


class TitleSystem(_Base):
    name = "titles"

    def __init__(self, tier):
        super().__init__(tier)
        self.n = 3 if tier == "quick" else 4
        self.pool = POOL if tier != "quick" else POOL
        self.description = (f"all sequences of <= {self.n} headings with titles from an {len(POOL)}-title pool built to collide (equal slugs from different "
                            "spellings, titles equal to suffixed forms, skipped inline tokens), level 1; length <= 2 also with each heading nested in a quote / list item")

    def bounds(self):
        return {"length": self.n, "pool": len(POOL)}

    def alphabet(self):
        return [m for m, _ in POOL]

    def rule(self):
        return "one case = one title sequence (+ nesting variant); non-trivial = at least two headings share a base slug"

    def cases(self):
        for n in range(1, self.n + 1):
            for idx in itertools.product(range(len(POOL)), repeat=n):
                yield [list(idx), "top"]
                if n <= 2:
                    yield [list(idx), "quote"]
                    yield [list(idx), "list"]

    def run(self, case):
        idx, nest = case
        ts = [POOL[i] for i in idx]
        pre = {"top": "", "quote": "> ", "list": "- "}[nest]
        def heading(md):
            if "\n" in md:  # a multi-line title can only be written as a setext heading (soft / hard breaks are not part of the slug text)
                ind = {"top": "", "quote": "> ", "list": "  "}[nest]
                lines = md.split("\n")
                return pre + lines[0] + "\n" + "".join(ind + l + "\n" for l in lines[1:]) + ind + "===\n\n"
            return f"{pre}# {md}\n\n"

        text = "".join(heading(md) + ("<!-- -->\n\n" if nest == "list" else "") for md, _ in ts)
        settings = {"myst_heading_anchors": 2}
        doc, warn = docutils_doctree(text, settings)
        viol = []
        blank = any(p != p.strip() for _, p in ts)
        dup3 = max(model_slugs([p for _, p in ts]).count(x) for x in [0]) if False else None
        bases = [gh(p) for _, p in ts]

        def bad(clause, msg, **sig):
            viol.append(violation(clause, {"clause": clause, "leading_blank": blank, "nest": nest, **sig}, f"{[m for m, _ in ts]}: {msg}",
                                  text=text, warnings=warn))

        hs = headings(doc)
        slugs = [s for _, s, _, _ in hs]
        exp = model_slugs([p for _, p in ts])
        if len(hs) != len(ts):
            bad("structure", f"{len(hs)} heading nodes for {len(ts)} headings")
        elif not blank and slugs != exp:
            bad("rule", f"slugs {slugs}, documented rule + suffixing gives {exp}")
        cli = cli_ids(self.scratch(), text, 2)
        if slugs != cli:
            strip_explains = slugs == exp and cli == model_slugs([p.strip() for _, p in ts])
            bad("cli", f"rendered slugs {slugs} differ from myst-anchors output {cli}", explained_by_strip=strip_explains)
        real = [s for s in slugs if s is not None]
        if len(set(real)) != len(real):
            bad("unique", f"slugs not pairwise distinct: {slugs}")
        ms = getattr(doc, "myst_slugs", None)
        nl = 0
        if len(hs) == len(ts):
            nl = check_links(text, slugs, settings, viol, bad)
        other = [w for w in parse_warnings(warn) if w["tag"] == "myst.heading_slug"]
        if other:
            bad("warning", f"unexpected heading_slug warnings {[w['msg'][:80] for w in other]}")
        return Obs(digest=(tuple(slugs), tuple(cli)), nontrivial=len(set(bases)) < len(bases), violations=viol[:4],
                   transitions=1 + bool(nl), validated=2 + nl)


SMALL = [("a", "a"), ("b", "b"), ("a-1", "a-1")]


class LevelSystem(_Base):
    name = "levels"
    description = "title sequences of length <= 3 over {a, b, a-1} x every level assignment from {1,2,3} x heading_anchors 0..3: exactly the headings of level <= k carry a slug; slugs unique among them; CLI differential at the same level"

    def bounds(self):
        return {"length": 3, "levels": 3, "anchors": 4}

    def rule(self):
        return "one case = (titles, levels, heading_anchors); non-trivial = some heading is inside and some outside the anchor depth"

    def cases(self):
        for n in range(1, 4):
            for idx in itertools.product(range(len(SMALL)), repeat=n):
                for lv in itertools.product((1, 2, 3), repeat=n):
                    for k in range(4):
                        yield [list(idx), list(lv), k]

    def run(self, case):
        idx, lv, k = case
        ts = [SMALL[i] for i in idx]
        text = "".join("#" * l + f" {md}\n\n" for (md, _), l in zip(ts, lv))
        settings = {"myst_heading_anchors": k}
        doc, warn = docutils_doctree(text, settings)
        viol = []

        def bad(clause, msg, **sig):
            viol.append(violation(clause, {"clause": clause, "anchors": k, **sig}, f"levels {lv} anchors={k} {[m for m, _ in ts]}: {msg}", text=text, warnings=warn))

        hs = headings(doc)
        slugs = [s for _, s, _, _ in hs]
        inside = [p for (_, p), l in zip(ts, lv) if l <= k]
        exp_in = model_slugs(inside)
        it = iter(exp_in)
        exp = [next(it) if l <= k else None for l in lv]
        if slugs != exp:
            bad("depth", f"slugs {slugs}, expected {exp} (only levels <= {k} get an anchor)")
        if k > 0:
            cli = cli_ids(self.scratch(), text, k)
            if [s for s in slugs if s is not None] != cli:
                bad("cli", f"rendered slugs {[s for s in slugs if s is not None]} differ from myst-anchors -l {k}: {cli}")
        if len(hs) == len(ts):
            check_links(text, slugs, settings, viol, bad)
        return Obs(digest=(tuple(slugs),), nontrivial=0 < len(inside) < len(ts), violations=viol[:3])


class DepthSystem(_Base):
    name = "depth"
    description = ("fixed document H1..H6 (plus the same nested in a quote, and the same after an include with :heading-offset: 1/2 "
                   "of a file with one heading) x heading_anchors 0..7")

    def bounds(self):
        return {"anchors": 8}

    def rule(self):
        return "one case = heading_anchors value x nesting; non-trivial = 0 < k < 6"

    def cases(self):
        for k in range(8):
            for nest in ("top", "quote", "after-include-1", "after-include-2"):
                yield [k, nest]

    def run(self, case):
        k, nest = case
        pre = "> " if nest == "quote" else ""
        text = "".join(f"{pre}{'#' * l} t{l}\n{pre}\n" for l in range(1, 7))
        exp = [f"t{l}" if l <= k else None for l in range(1, 7)]
        if nest.startswith("after-include"):
            # the offset belongs to the included file only: the headings after the directive keep their own depth
            off = int(nest[-1])
            d = self.scratch()
            (d / "hinc.md").write_text("# ia\n\ninc para\n")
            text = f"```{{include}} hinc.md\n:heading-offset: {off}\n```\n\n" + text
            exp = ["ia" if 1 + off <= k else None] + exp
            doc, warn = docutils_doctree(text, {"myst_heading_anchors": k}, source_path=str(d / "index.md"))
        else:
            doc, warn = docutils_doctree(text, {"myst_heading_anchors": k})
        hs = headings(doc)
        got = [s for _, s, _, _ in hs]
        viol = []
        if got != exp:
            viol.append(violation("depth", {"clause": "depth", "anchors": k, "nest": nest}, f"heading_anchors={k}: slugs {got}, expected {exp}", text=text))
        return Obs(digest=tuple(got), nontrivial=0 < k < 6, violations=viol)


def _raising(title):
    raise RuntimeError("slug function failed on purpose")


def _constant(title):
    return "same"


def _upper(title):
    return title.upper().replace(" ", "_")


FUNCS = {
    "object": (_test_slug_func, lambda t: t[::-1]),
    "dotted": ("myst_parser.config.main._test_slug_func", lambda t: t[::-1]),
    "constant": (_constant, lambda t: "same"),
    "upper": (_upper, lambda t: t.upper().replace(" ", "_")),
    "raising": (_raising, None),
}


class FuncSystem(_Base):
    name = "slugfunc"
    description = "custom slug functions (object, dotted path, constant, upper-casing, raising) x all title sequences of length <= 3 over {a, A, a 1, `a`, a!}"
    TITLES = [("a", "a"), ("A", "A"), ("a 1", "a 1"), ("`a`", "a"), ("a!", "a!")]

    def bounds(self):
        return {"length": 3, "functions": len(FUNCS)}

    def rule(self):
        return "one case = (function, title sequence); non-trivial = two titles map to one base slug"

    def cases(self):
        for f in FUNCS:
            for n in range(1, 4):
                for idx in itertools.product(range(len(self.TITLES)), repeat=n):
                    yield [f, list(idx)]

    def run(self, case):
        fname, idx = case
        func, ref = FUNCS[fname]
        ts = [self.TITLES[i] for i in idx]
        text = "".join(f"# {md}\n\n" for md, _ in ts)
        settings = {"myst_heading_anchors": 2, "myst_heading_slug_func": func}
        viol = []

        def bad(clause, msg, **sig):
            viol.append(violation(clause, {"clause": clause, "func": fname, **sig}, f"slug_func={fname} {[m for m, _ in ts]}: {msg}", text=text))

        try:
            doc, warn = docutils_doctree(text, settings)
        except Exception as exc:
            bad("custom-func", f"{type(exc).__name__}: {exc} (a failing slug function must only produce a warning)", kind="exception")
            return Obs(digest=("exc", fname), violations=viol)
        hs = headings(doc)
        slugs = [s for _, s, _, _ in hs]
        ws = [w for w in parse_warnings(warn) if w["tag"] == "myst.heading_slug"]
        if ref is None:
            if any(s is not None for s in slugs):
                bad("custom-func", f"slugs {slugs} although the function raises", kind="slug-despite-error")
            if len(ws) != len(ts):
                bad("custom-func", f"{len(ws)} [myst.heading_slug] warnings for {len(ts)} headings", kind="warning-count")
            if len(hs) != len(ts):
                bad("custom-func", "headings lost", kind="lost")
        else:
            exp = model_slugs([p for _, p in ts], ref)
            if slugs != exp:
                bad("custom-func", f"slugs {slugs}, expected unique(f(title)) = {exp}", kind="value")
            if ws:
                bad("custom-func", f"unexpected heading_slug warnings {ws}", kind="spurious-warning")
            if len(hs) == len(ts):
                check_links(text, slugs, settings, viol, bad)
        bases = [ref(p) for _, p in ts] if ref else []
        return Obs(digest=(fname, tuple(slugs), len(ws)), nontrivial=len(set(bases)) < len(bases) or ref is None, violations=viol[:3])


DOTTED = {
    "pkg_a": ("mcx.models.slugmods.pkg_a.slugify", lambda t: "A-" + t.replace(" ", "_")),
    "pkg_b": ("mcx.models.slugmods.pkg_b.slugify", lambda t: "B-" + t.replace(" ", "_")),
    "test": ("myst_parser.config.main._test_slug_func", lambda t: t[::-1]),
    "default": (None, gh),
}


class FuncHistorySystem(_Base):
    """a configured slug function replaces the default in EVERY parse: sequences of differently configured parses in one process"""

    name = "slugfunc-history"
    fork_per_case = True
    chunk = 1
    description = ("every sequence of <= 3 parses in one fresh process, each configured with a slug function given as a dotted path "
                   "(two modules exporting a function of the SAME name, the bundled test function, the default)")

    def bounds(self):
        return {"parses": 3, "functions": len(DOTTED)}

    def rule(self):
        return "one case = one sequence of configurations (fresh process); non-trivial = two different functions are used"

    def cases(self):
        for n in (1, 2, 3):
            for seq in itertools.product(list(DOTTED), repeat=n):
                yield list(seq)

    def run(self, seq):
        text = "# a b\n\n## a b\n\n[](#x)\n"
        viol, dig = [], []
        for pos, name in enumerate(seq):
            dotted, ref = DOTTED[name]
            settings = {"myst_heading_anchors": 2}
            if dotted:
                settings["myst_heading_slug_func"] = dotted
            doc, warn = docutils_doctree(text, settings)
            slugs = [s for _, s, _, _ in headings(doc)]
            exp = model_slugs(["a b", "a b"], ref)
            dig.append(tuple(slugs))
            if slugs != exp:
                viol.append(violation("custom-func", {"clause": "custom-func", "func": name, "kind": "history"},
                                      f"parse #{pos} of {seq} configured with {dotted or 'the default'}: slugs {slugs}, expected {exp}", text=text, sequence=seq))
        return Obs(digest=tuple(dig), nontrivial=len(set(seq)) > 1, violations=viol[:2], transitions=len(seq), validated=len(seq))


def systems(tier):
    return [TitleSystem(tier), LevelSystem(tier), DepthSystem(tier), FuncSystem(tier), FuncHistorySystem(tier)]
