"""C09 — local '#target' links resolve to the right node or warn exactly once.

System (DESIGN.md §4 C09): documents assembled from placements of explicit targets / headings and
'#name' links (explicit, nested-markup, empty text, <project:#name>) at top level / in a quote / list item /
note body, link before or after the targets.  Reference model: explicit-then-slug lookup on the names the
generator wrote.  docutils front end, full transform pipeline.
"""

from __future__ import annotations

import itertools
import re

from docutils import nodes

from ..drivers import docutils_doctree, parse_warnings
from ..engine import Obs, System, violation

PROPERTY_ID = "C09"
LEVEL = "model_checking"
ASSUMPTIONS = [
    "reference model: resolve(name) = node the generator attached the explicit name to, else the heading whose slug (GitHub rule, first-free suffix) is name, else missing",
    "a link that differs from a target's declared spelling only in letter case is unspecified: resolving to that target or warning once are both accepted",
    "two explicit targets with the same name are not generated (docutils' own duplicate handling)",
    "docutils front end, full transform pipeline; Sphinx resolves local ids through the same transform and then its std domain (covered by C12's project)",
]

EXT = ["colon_fence", "attrs_block", "attrs_inline"]
SETTINGS = {"myst_enable_extensions": EXT, "myst_heading_anchors": 3}


def T_target_para(name, i):
    return [f"({name})=", f"TM{i} para"], [dict(name=name, marker=f"TM{i} para", title=None, kind="tgt-para", explicit=True)]


def T_target_head(name, i):
    return [f"({name})=", f"## TM{i} Head"], [dict(name=name, marker=f"TM{i} Head", title=f"TM{i} Head", kind="tgt-head", explicit=True),
                                             dict(name=f"tm{i}-head", marker=f"TM{i} Head", title=f"TM{i} Head", kind="slug", explicit=False)]


def T_attr_para(name, i):
    return [f"{{#{name}}}", f"TM{i} para"], [dict(name=name, marker=f"TM{i} para", title=None, kind="attr-para", explicit=True)]


def T_attr_head(name, i):
    return [f"{{#{name}}}", f"## TM{i} Head"], [dict(name=name, marker=f"TM{i} Head", title=f"TM{i} Head", kind="attr-head", explicit=True),
                                              dict(name=f"tm{i}-head", marker=f"TM{i} Head", title=f"TM{i} Head", kind="slug", explicit=False)]


def T_dir_name(name, i):
    return ["```{note}", f":name: {name}", f"TM{i} body", "```"], [dict(name=name, marker=f"TM{i} body", title=None, kind="dir-name", explicit=True)]


def T_slug(name, i):
    return [f"## {name}"], [dict(name=name.lower(), marker=name, title=name, kind="slug", explicit=False, ordinal=0)]


def T_slug_dup(name, i):
    # two headings with one title: slugs name and name-1
    return [f"## {name}", "", f"DUPSEP{i}", "", f"## {name}"], [
        dict(name=name.lower(), marker=name, title=name, kind="slug", explicit=False, ordinal=0),
        dict(name=name.lower() + "-1", marker=name, title=name, kind="slug-dup", explicit=False, ordinal=1)]


def T_slug_dup3(name, i):
    return [f"## {name}", "", f"DUPSEP{i}", "", f"## {name}", "", f"DUPSEQ{i}", "", f"## {name}"], [
        dict(name=name.lower(), marker=name, title=name, kind="slug", explicit=False, ordinal=0),
        dict(name=name.lower() + "-1", marker=name, title=name, kind="slug-dup", explicit=False, ordinal=1),
        dict(name=name.lower() + "-2", marker=name, title=name, kind="slug-dup3", explicit=False, ordinal=2)]


def T_case(name, i):
    mixed = name.capitalize() + "-X"
    return [f"({mixed})=", f"TM{i} para"], [dict(name=mixed, marker=f"TM{i} para", title=None, kind="tgt-case", explicit=True)]


def T_slug_cap(name, i):
    # a one-word capitalised title: the slug is lower-case, docutils' implicit name of the section is the lower-cased title as well
    return [f"## {name.capitalize()}"], [dict(name=name.lower(), marker=name.capitalize(), title=name.capitalize(), kind="slug-cap", explicit=False, ordinal=0)]


def T_uni(name, i):
    # a non-ASCII explicit name (the href is percent-encoded by the Markdown parser, every link spelling must decode it)
    return [f"({name}\u00e9)=", f"TM{i} para"], [dict(name=name + "\u00e9", marker=f"TM{i} para", title=None, kind="tgt-uni", explicit=True)]


def T_target_head_stale(name, i):
    # headings that go deeper, come back up and then skip a level: the named heading must still be the section the target is attached to
    return ([f"# Alpha{i}", "", f"## Beta{i}", "", f"# Gamma{i}", "", f"({name})=", f"### TM{i} Head"],
            [dict(name=name, marker=f"TM{i} Head", title=f"TM{i} Head", kind="tgt-head-stale", explicit=True)])


def T_discarded(name, i):
    # a target inside directive content that the directive throws away (a figure whose caption is a list): it names nothing
    return ["```{figure} img.png", "- item", "", f"  ({name}gone)=", f"  TM{i} para", "```"], [dict(name="zzunused" + str(i), marker="NOSUCH", title=None, kind="discarded", explicit=True)]


def T_slug_html(name, i):
    # inline raw HTML in the title: skipped by the slug and by the text an empty link is filled with
    return [f"## {name} <kbd>K</kbd> x"], [dict(name=f"{name}-k-x", marker=f"{name} <kbd>K</kbd> x", title=f"{name} K x", kind="slug-html", explicit=False, ordinal=0)]


def T_deep_head(name, i):
    # a heading below the anchor depth (heading_anchors=3): it has a docutils implicit name, but no slug, so '#<title>' names nothing
    return ["## Mid", "", "### Low", "", f"#### {name}deep"], [dict(name="mid", marker="Mid", title="Mid", kind="slug", explicit=False, ordinal=0)]


TK = {"tgt-head-stale": T_target_head_stale, "slug-cap": T_slug_cap, "deep-head": T_deep_head, "tgt-uni": T_uni, "discarded": T_discarded, "slug-html": T_slug_html, "tgt-para": T_target_para, "tgt-head": T_target_head, "attr-para": T_attr_para, "attr-head": T_attr_head,
      "dir-name": T_dir_name, "slug": T_slug, "slug-dup": T_slug_dup, "slug-dup3": T_slug_dup3, "tgt-case": T_case}
FORMS = ["text", "empty", "auto", "nested"]
CTX = {
    "top": lambda ls: ls,
    "quote": lambda ls: ["> " + l if l else ">" for l in ls],
    "list": lambda ls: [("- " if i == 0 else "  ") + l if l or i == 0 else "" for i, l in enumerate(ls)],
    "note": lambda ls: ["`````{note}", *ls, "`````"],
}


def link_md(form, name, j):
    m = f"LM{j}"
    return {"text": f"[{m} x](#{name})", "empty": f"[](#{name})", "auto": f"<project:#{name}>",
            "nested": f"[**{m}** *x*](#{name})"}[form], m


def build(case):
    """case = {targets: [(kind, name)], tctx, links: [(form, name, ctx)], order} -> (text, infos, link records)"""
    tl, infos = [], []
    for i, (kind, name) in enumerate(case["targets"]):
        ls, inf = TK[kind](name, i)
        tl += CTX[case["tctx"]](ls) + [""]
        for x in inf:
            x["ctx"] = case["tctx"]
        infos += inf
    ll, links = [], []
    for j, (form, name, lctx) in enumerate(case["links"]):
        txt, m = link_md(form, name, j)
        ll.append((CTX[lctx]([f"LP{j} " + txt]) + [""], (m, form, name, j, lctx)))
    head = ["# Doc", ""]
    lines = list(head)
    recs = []
    if case["order"] == "before":
        for block, rec in ll:
            line = len(lines) + 1 + (1 if rec[4] == "note" else 0)
            lines += block
            recs.append((*rec, line))
        lines += tl
    else:
        lines += tl
        for block, rec in ll:
            line = len(lines) + 1 + (1 if rec[4] == "note" else 0)
            lines += block
            recs.append((*rec, line))
    return "\n".join(lines) + "\n", infos, recs


def clean_text(node) -> str:
    """astext() without system_message descendants (docutils attaches reports inside the node they concern)"""
    if isinstance(node, nodes.Text):
        return node.astext()
    if isinstance(node, nodes.system_message):
        return ""
    sep = node.child_text_separator if hasattr(node, "child_text_separator") else ""
    parts = [clean_text(c) for c in node.children if not isinstance(c, nodes.system_message)]
    return sep.join(p for p in parts)


def resolve_model(infos, name):
    """-> (status, info): status in hit / missing / case-variant"""
    expl = [i for i in infos if i["explicit"] and i["name"] == name]
    if expl:
        return "hit", expl[0]
    slug = [i for i in infos if not i["explicit"] and i["name"] == name]
    if slug:
        return "hit", slug[0]
    ci = [i for i in infos if i["name"].lower() == name.lower() and i["explicit"]]
    if ci:
        return "case-variant", ci[0]  # (docutils compares explicit names case-insensitively: either outcome is accepted)
    return "missing", None  # a case variant of a heading SLUG is not that slug: the target does not exist


def node_matches(node, info, doc):
    if node is None:
        return False
    txt = clean_text(node)
    if info["marker"] not in txt:
        return False
    if "ordinal" in info:
        # n-th heading with that title, in document order
        hs = [n for n in doc.findall(lambda n: isinstance(n, (nodes.section, nodes.rubric)))
              if (clean_text(n[0]) if isinstance(n, nodes.section) else clean_text(n)) == info["marker"]]
        return info["ordinal"] < len(hs) and hs[info["ordinal"]] is node
    return True


class LinkSystem(System):
    name = "placements"

    def __init__(self, tier, name, two_links):
        super().__init__(tier)
        self.name = name
        self.two = two_links
        self.description = ("documents with 1-2 targets (8 kinds: (name)= / {#name} on paragraph and heading, directive :name:, heading slug, duplicate "
                            "titles, mixed-case declaration) in 4 contexts and "
                            + ("2 links (4 forms x names {aa, bb, zz}) in top/quote context" if two_links else
                               "1 link (4 forms x existing / missing / case-variant name) in 4 contexts, before or after the targets"))

    def bounds(self):
        return {"targets": 2, "links": 2 if self.two else 1}

    def alphabet(self):
        return {"target_kinds": list(TK), "link_forms": FORMS, "contexts": list(CTX), "names": ["aa", "bb", "zz"]}

    def rule(self):
        return "one case = one document; non-trivial = at least one link names an existing target"

    def target_sets(self):
        kinds = list(TK)
        for k in kinds:
            yield [(k, "aa")]
        core = ("tgt-para", "slug", "attr-head", "dir-name", "slug-dup")
        for a, k1 in enumerate(kinds):
            for b, k2 in enumerate(kinds):
                if self.tier == "quick" and k2 not in core:
                    continue  # quick: every kind next to each of 5 core kinds (both orders of the explicit-vs-slug pairs follow); all ordered pairs in the thorough tier
                yield [(k1, "aa"), (k2, "bb")]
        # priority clause: explicit target and heading slug with the same name
        for k1 in ("tgt-para", "attr-para", "dir-name", "tgt-head"):
            yield [(k1, "aa"), ("slug", "aa")]
            yield [("slug", "aa"), (k1, "aa")]

    def cases(self):
        for targets in self.target_sets():
            if self.two and self.tier == "quick" and len(targets) == 2 and targets[0][1] != targets[1][1]:
                continue  # quick: two links against single targets and the explicit-vs-slug priority pairs; all pairs in the thorough tier
            has_case = any(k == "tgt-case" for k, _ in targets)
            names = (["aa", "bb", "zz", "aa-1"] + (["Aa-X", "aa-x"] if has_case else []) + (["Aa", "AA"] if any(k == "slug-cap" for k, _ in targets) else [])
                     + (["aadeep", "Aadeep", "bbdeep"] if any(k == "deep-head" for k, _ in targets) else []))
            names = names + (["aa\u00e9", "zz\u00e9"] if any(k == "tgt-uni" for k, _ in targets) else [])
            names = names + (["aagone", "bbgone"] if any(k == "discarded" for k, _ in targets) else []) + (["aa-k-x", "bb-k-x"] if any(k == "slug-html" for k, _ in targets) else []) + (["aa-2"] if any(k == "slug-dup3" for k, _ in targets) else [])
            if not self.two:
                for tctx in CTX:
                    for form in FORMS:
                        for lname in names:
                            for lctx in CTX:
                                for order in ("after", "before"):
                                    yield {"targets": targets, "tctx": tctx, "links": [(form, lname, lctx)], "order": order}
            else:
                for tctx in ("top", "quote"):
                    for f1, f2 in itertools.product(FORMS, repeat=2):
                        # ("AA": a case variant - of a slug it names nothing, whatever an earlier link resolved to)
                        for n1, n2 in itertools.product(["aa", "bb", "zz", "AA"], repeat=2):
                            for lctx in ("top", "quote"):
                                yield {"targets": targets, "tctx": tctx, "links": [(f1, n1, lctx), (f2, n2, "top")], "order": "after"}

    def render(self, text):
        doc, warn = docutils_doctree(text, SETTINGS)
        return doc, warn, parse_warnings(warn)

    front_end = "docutils"

    def run(self, case):
        text, infos, recs = build(case)
        doc, warn, ws = self.render(text)
        viol = []
        nt = False
        kinds = tuple(k for k, _ in case["targets"])
        digest = []
        for (m, form, name, j, lctx, line) in recs:
            status, tgt = resolve_model(infos, name)

            def bad(clause, msg, **sig):
                viol.append(violation(clause, {"clause": clause, "form": form, "target_kind": tgt["kind"] if tgt else None,
                                               "target_ctx": case["tctx"] if tgt else None,
                                               **({"front_end": self.front_end} if self.front_end != "docutils" else {}), **sig},
                                      f"link {link_md(form, name, j)[0]} ({lctx}, {case['order']}) with targets {case['targets']} in {case['tctx']}: {msg}",
                                      text=text, warnings=warn, doctree=doc.pformat()[:4000]))

            para = [p for p in doc.findall(nodes.paragraph) if p.astext().startswith(f"LP{j}") and not isinstance(p.parent, nodes.system_message)]
            refs = list(para[0].findall(nodes.reference)) if para else []
            miss = [w for w in ws if w["tag"] == "myst.xref_missing" and f"'{name}'" in w["msg"]]
            n_same = sum(1 for r in recs if r[2] == name)
            if len(refs) != 1:
                bad("link-kept", f"{len(refs)} reference nodes for the link (dropped or duplicated)")
                digest.append("nrefs")
                continue
            ref = refs[0]
            txt = clean_text(ref)
            raw_txt = ref.astext()
            if form in ("text", "nested"):
                want = f"{m} x"
                if txt != want or (form == "nested" and not (list(ref.findall(nodes.strong)) and list(ref.findall(nodes.emphasis)))):
                    bad("explicit-text", f"explicit link text {txt!r}, written {want!r}")
            if status == "case-variant":
                node = doc.ids.get(ref.get("refid")) if ref.get("refid") else None
                ok_hit = node is not None and node_matches(node, tgt, doc) and not miss
                ok_miss = ref.get("refid") is None and len(miss) == n_same
                if not (ok_hit or ok_miss):
                    bad("case-variant", f"neither resolved to the case-variant target nor warned once (refid {ref.get('refid')!r}, {len(miss)} warnings)")
                digest.append("case")
                continue
            if status == "missing":
                # the docutils fallback writes the link out as the plain fragment '#name' (refid = name), which is fine as long as it warns
                if ref.get("refid") not in (None, name) and doc.ids.get(ref.get("refid")) is not None:
                    bad("missing", f"no target {name!r} exists but the link resolved to refid {ref.get('refid')!r}", kind="resolved")
                if len(miss) != n_same:
                    bad("missing", f"{len(miss)} [myst.xref_missing] warnings naming {name!r} for {n_same} links to it", kind="warning-count")
                elif not any(w["line"] == line for w in miss):
                    bad("missing", f"warning at line {[w['line'] for w in miss]}, the link is on line {line}", kind="warning-line")
                digest.append("missing")
                continue
            nt = True
            declared_mixed = tgt["kind"] == "tgt-case"
            node = doc.ids.get(ref.get("refid")) if ref.get("refid") else None
            if node is None or not node_matches(node, tgt, doc):
                got = None if node is None else node.astext()[:40]
                bad("resolve", f"resolved to {got!r} (refid {ref.get('refid')!r}), expected the {tgt['kind']} target {tgt['marker']!r}",
                    mixed_case=declared_mixed, spurious_warning=bool(miss))
            else:
                if form in ("empty", "auto"):
                    want = tgt["title"] or "#" + name
                    if txt != want:
                        leak = "Duplicate implicit target name" in txt
                        bad("fill", f"empty link text filled with {txt!r}, expected {want!r}", system_message_leak=leak)
                if miss:
                    bad("spurious-warning", f"link resolved but a target-not-found warning was issued: {miss[0]['msg'][:100]}")
            digest.append((ref.get("refid"), txt))
        other = [w for w in ws if w["tag"] == "myst.xref_missing" and not any(f"'{r[2]}'" in w["msg"] for r in recs)]
        if other:
            viol.append(violation("spurious-warning", {"clause": "spurious-warning", "form": None, "target_kind": None, "target_ctx": None},
                                  f"xref_missing warning for a name no link uses: {other[0]['msg']}", text=text, warnings=warn))
        return Obs(digest=(kinds, tuple(digest)), nontrivial=nt, violations=viol[:4],
                   canon=(kinds, case["tctx"], tuple((f, n, c) for f, n, c in case["links"]), case["order"]))

    def decode_case(self, case):
        case["targets"] = [tuple(t) for t in case["targets"]]
        case["links"] = [tuple(t) for t in case["links"]]
        return case


class SphinxLinkSystem(LinkSystem):
    """the one-link space (targets and link in top / quote context) through the in-process Sphinx front end"""

    jobs = 8
    front_end = "sphinx"

    def __init__(self, tier):
        super().__init__(tier, "one-link-sphinx", False)
        self.description = ("the one-link documents with targets and link at top level or in a quote, through an in-process Sphinx application "
                            "(read + post-transforms: ResolveAnchorIds, then MystReferenceResolver and the std domain)")

    def prepare(self, ctx):
        self.root = ctx.scratch / "c09sx"
        self.root.mkdir(exist_ok=True)

    def worker_init(self, wid):
        from ..drivers import SphinxDriver

        self.drv = SphinxDriver(self.root / f"w{wid}", conf=f"myst_enable_extensions={EXT!r}\nmyst_heading_anchors=3\n")

    def cases(self):
        ctxs = ("top", "quote") if self.tier == "quick" else ("top", "quote", "list", "note")
        for c in super().cases():
            if c["tctx"] in ctxs and c["links"][0][2] in ctxs:
                if self.tier == "quick" and len(c["targets"]) == 2 and c["order"] == "before":
                    continue
                if any(k == "discarded" for k, _ in c["targets"]):
                    continue  # Sphinx' own std domain registers the label of a discarded node (as it does for rST): not MyST's resolution
                yield c

    def render(self, text):
        from ..drivers import parse_sphinx_warnings

        if not hasattr(self, "drv"):
            self.worker_init(99)
        doc, warn = self.drv.read("t", text, resolve=True)
        ws = parse_sphinx_warnings(warn)
        # present the ids the way the docutils document object does
        if not getattr(doc, "ids", None):
            doc.ids = {}
        for n in doc.findall(lambda n: isinstance(n, nodes.Element) and n.get("ids")):
            for i in n["ids"]:
                doc.ids.setdefault(i, n)
        for r in doc.findall(nodes.reference):
            if not r.get("refid") and str(r.get("refuri", "")).startswith("#"):
                r["refid"] = r["refuri"][1:]
        return doc, warn, ws


def systems(tier):
    return [LinkSystem(tier, "one-link", False), LinkSystem(tier, "two-links", True), SphinxLinkSystem(tier)]
