"""C16 — HTML-to-AST parser: total, tree-consistent, exact round trip on well-formed HTML.

Systems (DESIGN.md §4 C16):
  soup-*     every string of length <= n over markup alphabets: totality, tree consistency,
             copy/strip never alter the original
  forest     every well-formed forest with <= k nodes (depth <= 3): exact round trip and the parsed
             tree equals the generator's own tree
  find       for every small forest, every find() query from a finite menu, compared with an
             independent pre-order filter over the generator's tree
"""

from __future__ import annotations

import itertools

from ..engine import Obs, System, violation

PROPERTY_ID = "C16"
LEVEL = "model_checking"
ASSUMPTIONS = [
    "well-formed HTML = the forest grammar of this module (balanced tags, double-quoted attribute "
    "values, void and self-closing elements, comments, declarations, PIs, char/entity references)",
    "attribute filters with an empty-string value are not queried (missing attributes read as '')",
    "canonical tag-internal spelling only: lower-case names, one blank between attributes, no blank before '/>' (the tokenizer normalises case and white space inside tags; HTML itself is case-insensitive there)",
    "termination = 60 s deadline per call",
]

from myst_parser.parsers import parse_html as ph  # noqa: E402
from myst_parser.parsers.parse_html import tokenize_html  # noqa: E402

SOUP = {
    "general": ("<>/ab =\"&;#!-?", 5, 6),
    "decl": ("<![]a >-", 6, 8),
    "attr": ("<a =\"'/>", 6, 8),
    "cdata-pi": ("<![CDAT>?-x", 5, 6),
}


def tree_snapshot(root):
    """(consistent?, reason, snapshot) where snapshot is a structural description."""
    seen = set()
    snap = []

    def rec(e, depth):
        for c in e:
            if id(c) in seen:
                return "element reachable twice"
            seen.add(id(c))
            if c.parent is not e:
                return "child.parent is not its container"
            snap.append((depth, type(c).__name__, c.name, tuple(sorted((k, v) for k, v in c.attrs.items())),
                         getattr(c, "data", None)))
            r = rec(c, depth + 1)
            if r:
                return r
        return None

    reason = rec(root, 0)
    if reason:
        return False, reason, snap
    walked = list(root.walk())
    if len(walked) != len(seen) or len({id(w) for w in walked}) != len(walked):
        return False, "walk() does not yield every element exactly once", snap
    if root.parent is not None:
        return False, "root has a parent", snap
    return True, "", snap


def check_soup(text: str) -> Obs:
    viol = []
    try:
        root = tokenize_html(text)
        out = str(root)
    except Exception as exc:
        import traceback

        tb = traceback.extract_tb(exc.__traceback__)
        where = tb[-1].name if tb else "?"
        viol.append(
            violation(
                "totality",
                {"clause": "totality", "exc": type(exc).__name__, "where": where},
                f"tokenize_html raised {type(exc).__name__}: {exc}",
                text=text,
            )
        )
        return Obs(digest=("crash", type(exc).__name__), violations=viol)
    ok, why, snap = tree_snapshot(root)
    if not ok:
        viol.append(
            violation("consistency", {"clause": "consistency", "why": why}, f"tree inconsistent: {why}", text=text)
        )
        return Obs(digest=("incons", why), violations=viol)
    # copy / strip never alter the original, and produce consistent trees
    try:
        cp = root.deepcopy()
        st = root.strip()
        st2 = root.strip(recurse=True)
        for t, nm in ((cp, "deepcopy"), (st, "strip"), (st2, "strip-recurse")):
            ok2, why2, _ = tree_snapshot(t)
            if not ok2:
                viol.append(
                    violation("consistency", {"clause": "consistency", "why": nm + ": " + why2},
                              f"{nm}() result inconsistent: {why2}", text=text)
                )
        if str(cp) != out:
            viol.append(
                violation("copy", {"clause": "copy", "kind": "copy-renders-differently"},
                          f"deepcopy renders {str(cp)!r}, original {out!r}", text=text)
            )
        # whitespace-only data must be gone from the stripped copy, everything else kept
        def nonblank(t, recurse, top=True):
            res = []
            for c in t:
                if isinstance(c, ph.Data) and c.data.strip() == "" and (top or recurse):
                    continue
                res.append((type(c).__name__, c.name, getattr(c, "data", None),
                            tuple(nonblank(c, recurse, False))))
            return res

        def shape(t):
            return [(type(c).__name__, c.name, getattr(c, "data", None), tuple(shape(c))) for c in t]

        if shape(st2) != nonblank(root, True):
            viol.append(
                violation("strip", {"clause": "strip", "kind": "recurse"},
                          "strip(recurse=True) is not the tree minus whitespace-only data", text=text)
            )
        if shape(st) != nonblank(root, False):
            viol.append(
                violation("strip", {"clause": "strip", "kind": "top"},
                          "strip() is not the tree minus top-level whitespace-only data", text=text)
            )
        # now vandalise the copies: the original must not notice
        for t in (cp, st, st2):
            for e in list(t.walk()):
                e.attrs["zz"] = "1"
                for k in list(e.attrs):
                    e.attrs[k] = "changed"
                if hasattr(e, "data"):
                    e.data = e.data + "!"
                e.name = e.name + "x"
            del t[:]
        ok3, why3, snap3 = tree_snapshot(root)
        if snap3 != snap or str(root) != out or not ok3:
            viol.append(
                violation("copy", {"clause": "copy", "kind": "original-altered"},
                          "copying/stripping (and then editing the copy) altered the original tree", text=text)
            )
    except Exception as exc:
        viol.append(
            violation("totality", {"clause": "totality", "exc": type(exc).__name__, "where": "copy/strip"},
                      f"deepcopy/strip raised {type(exc).__name__}: {exc}", text=text)
        )
    return Obs(
        digest=(out, tuple(snap)),
        nontrivial=len(snap) > 0,
        violations=viol,
        stats={"roundtrip": int(out == text)},
    )


class SoupSystem(System):
    def __init__(self, tier, name, alpha, n):
        super().__init__(tier)
        self.name = "soup-" + name
        self.alpha, self.n = alpha, n
        self.description = f"all strings of length <= {n} over {alpha!r}: totality, tree consistency, copy/strip isolation"

    def bounds(self):
        return {"max_length": self.n, "alphabet_size": len(self.alpha)}

    def alphabet(self):
        return list(self.alpha)

    def rule(self):
        return "every string over the alphabet up to the bound; non-trivial = the parsed tree has >= 1 element"

    def cases(self):
        for length in range(self.n + 1):
            for tup in itertools.product(self.alpha, repeat=length):
                yield "".join(tup)

    def run(self, case):
        return check_soup(case)


# ------------------------------------------------------------------------------------------------
# well-formed forests; a generated node is (text, spec) with spec = (class, name, attrs, data, children)

ATTRS = [
    ("", ()),
    (' k="v"', (("k", "v"),)),
    (' class="c d"', (("class", "c d"),)),
    (' k="" j="x y"', (("k", ""), ("j", "x y"))),
    (' disabled', (("disabled", None),)),
    (' k="x>y" j="it\'s"', (("k", "x>y"), ("j", "it's"))),
    (' k="a&amp;b"', (("k", "a&b"),)),
    (' class="c\td\nx"', (("class", "c\td\nx"),)),  # class tokens are separated by ANY white space
]
LEAVES = [
    ("x", ("Data", "", (), "x", ())),
    (" ", ("Data", "", (), " ", ())),
    ("<!--c-->", ("Comment", "", (), "c", ())),
    ("<!---->", ("Comment", "", (), "", ())),
    ("<!DOCTYPE html>", ("Declaration", "", (), "DOCTYPE html", ())),
    ("<![CDATA[a<b]]>", ("MarkedSection", "", (), "CDATA[a<b", ())),
    ("<![if IE]>", ("MarkedSection", "", (), "if IE", ())),
    ("<?p q?>", ("Pi", "", (), "p q?", ())),
    ("&#38;", ("Char", "", (), "38", ())),
    ("&#x26;", ("Char", "", (), "x26", ())),
    ("&amp;", ("Entity", "", (), "amp", ())),
    ("&apos;", ("Entity", "", (), "apos", ())),  # an HTML5-only name
    ("<![INCLUDE [ a ]]>", ("MarkedSection", "", (), "INCLUDE [ a ", ())),  # white space between the keyword and the bracket
    ("<br>", ("VoidTag", "br", (), None, ())),
    ('<img k="v">', ("VoidTag", "img", (("k", "v"),), None, ())),
    ("<a/>", ("XTag", "a", (), None, ())),
    ('<b k="v"/>', ("XTag", "b", (("k", "v"),), None, ())),
    ("<br/>", ("XTag", "br", (), None, ())),
]
TAGS = ["a", "p", "div"]


def forests(n, depth):
    """all forests with exactly n nodes and nesting depth <= depth: yields (text, [specs])"""
    if n == 0:
        yield "", ()
        return
    for ltext, lspec in LEAVES:
        for rtext, rspecs in forests(n - 1, depth):
            yield ltext + rtext, (lspec,) + rspecs
    if depth > 0:
        for t in TAGS:
            for atext, aspec in ATTRS:
                for k in range(0, n):
                    for itext, ispecs in forests(k, depth - 1):
                        for rtext, rspecs in forests(n - 1 - k, depth):
                            yield (
                                f"<{t}{atext}>{itext}</{t}>{rtext}",
                                (("Tag", t, aspec, None, ispecs),) + rspecs,
                            )


def merge_data(specs):
    """adjacent Data nodes are one text run for the parser"""
    out = []
    for s in specs:
        cls, name, attrs, data, kids = s
        kids = merge_data(kids)
        if cls == "Data" and out and out[-1][0] == "Data":
            out[-1] = ("Data", "", (), out[-1][3] + data, ())
        else:
            out.append((cls, name, attrs, data, kids))
    return tuple(out)


def actual_spec(e):
    return tuple(
        (
            type(c).__name__,
            c.name,
            tuple(c.attrs.items()),
            getattr(c, "data", None),
            actual_spec(c),
        )
        for c in e
    )


class ForestSystem(System):
    name = "forest"

    def __init__(self, tier):
        super().__init__(tier)
        self.k = 3 if tier == "quick" else 4
        self.description = f"every well-formed forest with <= {self.k} nodes, depth <= 3: exact round trip + parsed tree equals the generated tree"

    def bounds(self):
        return {"max_nodes": self.k, "max_depth": 3}

    def alphabet(self):
        return {"leaves": [l[0] for l in LEAVES], "tags": TAGS, "attrs": [a[0] for a in ATTRS]}

    def rule(self):
        return "every derivation of the forest grammar within the bounds; non-trivial = >= 1 node"

    def cases(self):
        for n in range(self.k + 1):
            for text, specs in forests(n, 3):
                yield [text, specs]

    def describe(self, case):
        return case[0]

    def run(self, case):
        text, specs = case
        viol = []
        root = tokenize_html(text)
        out = str(root)
        if out != text:
            # narrow classification: the stdlib tokenizer decodes character references inside attribute values irreversibly
            charref_attr = "&amp;" in text and out == text.replace('k="a&amp;b"', 'k="a&b"')
            viol.append(
                violation("roundtrip", {"clause": "roundtrip", **({"cause": "charref-in-attribute-value"} if charref_attr else {})},
                          f"render(parse(s)) = {out!r} != s = {text!r}", text=text, observed=out)
            )
        exp = merge_data(_tuplify(specs))
        act = actual_spec(root)
        if act != exp:
            viol.append(
                violation("structure", {"clause": "structure"},
                          f"parsed tree differs from the generated tree for {text!r}", text=text,
                          expected=repr(exp), observed=repr(act))
            )
        ok, why, _ = tree_snapshot(root)
        if not ok:
            viol.append(violation("consistency", {"clause": "consistency", "why": why}, why, text=text))
        return Obs(digest=out, nontrivial=bool(specs), violations=viol)


def _tuplify(x):
    if isinstance(x, list):
        return tuple(_tuplify(v) for v in x)
    if isinstance(x, tuple):
        return tuple(_tuplify(v) for v in x)
    return x


IDENT = ["a", "p", "div", "br", "img", "b", "zz", "@Tag", "@VoidTag", "@XTag", "@Data", "@Comment", "@Char"]
CLASSES = [None, ["c"], ["d"], ["c", "d"], ["x"], []]
FATTRS = [None, {"k": "v"}, {"j": "x y"}, {"class": "c d"}, {"k": "v", "zz": "q"}]


class FindSystem(System):
    name = "find"

    def __init__(self, tier):
        super().__init__(tier)
        self.k = 2 if tier == "quick" else 3
        self.description = (
            f"every forest with <= {self.k} nodes x every find() query "
            f"({len(IDENT)} identifiers x {len(CLASSES)} class sets x {len(FATTRS)} attribute filters x recurse x include_self) "
            "vs an independent pre-order filter"
        )

    def bounds(self):
        return {"max_nodes": self.k, "queries_per_forest": len(IDENT) * len(CLASSES) * len(FATTRS) * 4}

    def alphabet(self):
        return {"identifiers": IDENT, "classes": CLASSES, "attrs": FATTRS}

    def rule(self):
        return "one case = one forest, all queries executed on it; non-trivial = some query returned >= 1 element"

    def cases(self):
        for n in range(self.k + 1):
            for text, specs in forests(n, 3):
                yield text

    def run(self, text):
        viol = []
        root = tokenize_html(text)
        # independent pre-order list of (element, depth)
        order = []

        def rec(e, d):
            for c in e._children:
                order.append((c, d))
                rec(c, d + 1)

        rec(root, 0)
        nq = 0
        hits = 0
        digest = []
        for ident in IDENT:
            if ident.startswith("@"):
                klass = getattr(ph, ident[1:])
                test = lambda c: isinstance(c, klass)  # noqa: E731
                identifier = klass
            else:
                test = lambda c: c.name == ident  # noqa: E731
                identifier = ident
            for classes in CLASSES:
                for fa in FATTRS:
                    for recurse in (True, False):
                        for include_self in (True, False):
                            nq += 1
                            cand = [c for c, d in order if recurse or d == 0]
                            if include_self:
                                cand = [root] + cand
                            exp = []
                            for c in cand:
                                if not test(c):
                                    continue
                                if classes is not None:
                                    have = dict.get(c.attrs, "class", "").split()
                                    if not all(x in have for x in classes):
                                        continue
                                if fa and not all(dict.get(c.attrs, k) == v for k, v in fa.items()):
                                    continue
                                exp.append(c)
                            got = list(
                                root.find(identifier, attrs=fa, classes=classes,
                                          include_self=include_self, recurse=recurse)
                            )
                            hits += len(got)
                            digest.append(len(got))
                            if [id(g) for g in got] != [id(e) for e in exp]:
                                if len(viol) < 3:
                                    viol.append(
                                        violation(
                                            "find", {"clause": "find"},
                                            f"find({ident!r}, attrs={fa}, classes={classes}, include_self={include_self}, "
                                            f"recurse={recurse}) on {text!r} returned {got!r}, expected {exp!r}",
                                            text=text,
                                        )
                                    )
        return Obs(digest=(text, tuple(digest)), nontrivial=hits > 0, violations=viol,
                   transitions=nq, validated=nq, stats={"queries": nq})


TAGSOUP = ["<a>", "<b>", "<i>", "</a>", "</b>", "</i>", "x", "<br>", "<a/>", "</p>", "<p>"]


class TagSoupSystem(System):
    """mis-nested / stray open and close tags (token level, longer than the character soups can reach)"""

    name = "soup-tags"

    def __init__(self, tier):
        super().__init__(tier)
        self.n = 5 if tier == "quick" else 6
        self.description = f"every sequence of <= {self.n} tokens from {TAGSOUP}: totality, tree consistency, copy/strip isolation"

    def bounds(self):
        return {"tokens": self.n, "alphabet_size": len(TAGSOUP)}

    def alphabet(self):
        return TAGSOUP

    def rule(self):
        return "one case = one token sequence; non-trivial = contains a close tag"

    def cases(self):
        for n in range(1, self.n + 1):
            for t in itertools.product(TAGSOUP, repeat=n):
                yield "".join(t)

    def run(self, text):
        return check_soup(text)


VOIDS = ["area", "base", "br", "col", "embed", "hr", "img", "input", "link", "meta", "param", "source", "track", "wbr"]


class VoidSystem(System):
    """every HTML void element, written without an end tag, in every position of a small document"""

    name = "void-elements"

    def __init__(self, tier):
        super().__init__(tier)
        self.description = (f"{len(VOIDS)} void elements x 4 attribute forms x 5 positions (alone, between text, nested, before a sibling, two in a row): "
                            "exact round trip, no children, the following sibling stays a sibling")

    def bounds(self):
        return {"void_elements": len(VOIDS)}

    def alphabet(self):
        return VOIDS

    def rule(self):
        return "one case = (void element, attribute form, position); non-trivial = always"

    def cases(self):
        for v in VOIDS:
            for a in ("", ' k="v"', ' name="a" value="1"', " disabled"):
                for pos in range(5):
                    yield [v, a, pos]

    def run(self, case):
        v, a, pos = case
        tag = f"<{v}{a}>"
        text = [tag, f"x{tag}y", f"<p>{tag}t</p>", f"<div>{tag}<b>s</b></div><i>j</i>", f"<object>{tag}{tag}</object>"][pos]
        obs = check_soup(text)
        viol = list(obs.violations)
        root = tokenize_html(text)
        if str(root) != text:
            viol.append(violation("roundtrip", {"clause": "roundtrip", "cause": "void-element"}, f"render(parse(s)) = {str(root)!r} != s = {text!r}", text=text))
        for e in root.walk():
            if getattr(e, "name", None) == v and len(list(e.children if hasattr(e, "children") else [])) != 0:
                viol.append(violation("structure", {"clause": "structure", "cause": "void-element-has-children"}, f"void element <{v}> got children in {text!r}", text=text))
        return Obs(digest=(text, str(root)), nontrivial=True, violations=viol[:3])


MARKED = ["<![", "if", "endif", "else", "CDATA", "cdata", "temp", "include", "ignore", "rcdata", "x", "2", " ", "[", "]", "]>", "]]>", "--", ">", "IE"]


class MarkedSoupSystem(TagSoupSystem):
    """marked sections '<![keyword ...' with known keywords, their prefixes / extensions and every terminator"""

    name = "soup-marked"

    def __init__(self, tier):
        System.__init__(self, tier)
        self.n = 4 if tier == "quick" else 5
        self.description = f"'<![' followed by every sequence of <= {self.n} tokens from {MARKED[1:]} (and the same after text): totality, tree consistency, copy/strip isolation"

    def bounds(self):
        return {"tokens": self.n, "alphabet_size": len(MARKED)}

    def alphabet(self):
        return MARKED

    def cases(self):
        for n in range(0, self.n + 1):
            for t in itertools.product(MARKED[1:], repeat=n):
                body = "".join(t)
                yield "<![" + body
                yield "a<![" + body + "<b>"


PROBES = [t for n in range(1, 3) for t, _ in forests(n, 1)][::6]  # every sixth forest of <= 2 nodes (an enumerated stride, not a sample)


class HistorySystem(System):
    """No parse depends on an earlier one: soup string first (unfinished tags, comments, references ...), then well-formed documents."""

    name = "history"

    def __init__(self, tier):
        super().__init__(tier)
        self.n = 3 if tier == "quick" else 4
        self.alpha = "<>/ab!-&;s"
        self.extra = ["<script>", "<style>", "<textarea>", "<!--", "<![CDATA[", "<b k=\"", "&amp", "<?p", "<title>x", "<a", "</"]
        self.description = (f"every string of length <= {self.n} over {self.alpha!r} (+ {len(self.extra)} unfinished constructs) is parsed first, "
                            f"then each of {len(PROBES)} well-formed documents: exact round trip and the generator's tree, as in a fresh process")

    def prepare(self, ctx):
        # what each probe renders to when it is parsed in a pristine process (the forest system judges these renderings themselves)
        self.base = {p: str(tokenize_html(p)) for p in PROBES}

    def bounds(self):
        return {"prefix_len": self.n, "probes": len(PROBES)}

    def alphabet(self):
        return list(self.alpha) + self.extra

    def rule(self):
        return "one case = one earlier input followed by all probe documents (transitions = parses); non-trivial = the earlier input is not itself round-tripping"

    def cases(self):
        yield from self.extra
        for n in range(1, self.n + 1):
            for tup in itertools.product(self.alpha, repeat=n):
                yield "".join(tup)

    def run(self, first):
        viol = []
        try:
            r0 = str(tokenize_html(first))
        except Exception as exc:  # totality is the soup systems' clause
            r0 = f"EXC {type(exc).__name__}"
        n = 0
        for probe in PROBES:
            n += 1
            got = str(tokenize_html(probe))
            if got != getattr(self, "base", {}).get(probe, probe) and not viol:
                viol.append(violation("history", {"clause": "history-roundtrip"},
                                      f"after parsing {first!r}, render(parse({probe!r})) = {got!r}", first=first, text=probe, observed=got))
        again = str(tokenize_html(first)) if not r0.startswith("EXC") else r0
        if again != r0:
            viol.append(violation("history", {"clause": "history-repeat"},
                                  f"parsing {first!r} twice gives {r0!r} then {again!r}", first=first))
        return Obs(digest=(first, r0), nontrivial=r0 != first, violations=viol, transitions=n + 2, validated=n + 1)


def systems(tier):
    out = [SoupSystem(tier, nm, a, nq if tier == "quick" else nt) for nm, (a, nq, nt) in SOUP.items()]
    out.append(ForestSystem(tier))
    out.append(FindSystem(tier))
    out.append(HistorySystem(tier))
    out.append(TagSoupSystem(tier))
    out.append(MarkedSoupSystem(tier))
    out.append(VoidSystem(tier))
    return out


def vacuity(results):
    errs = []
    for r in results:
        if r.name.startswith("soup-") and r.stats.get("roundtrip", 0) == 0:
            errs.append(f"{r.name}: no string round-trips (vacuous)")
    return errs
