"""C12 — Sphinx cross-document links resolve to the right URI or warn exactly once.

System (DESIGN.md §4 C12): a family of generated multi-directory projects; every source page links to every target page /
heading anchor / duplicate-title anchor / project label / non-document file in every spelling, with explicit and empty text,
plus missing targets.  Each project is built once in-process (html builder); every source page is resolved and every link
compared with the reference: URI = posixpath.relpath(target.html, dirname(source)) + '#' + id read from the TARGET page's own doctree.
"""

from __future__ import annotations

import posixpath
import re
import shutil

from docutils import nodes

from ..engine import Obs, System, violation

PROPERTY_ID = "C12"
LEVEL = "model_checking"
ASSUMPTIONS = [
    "expected URI = posixpath.relpath(target_docname + '.html', dirname(source_docname)) (+ '#' + id); the id is read from the target page's own doctree (section carrying the generator's title / node carrying the label)",
    "html builder; links to a label on an untitled node are generated with explicit text only (Sphinx' own ref role refuses them without text as well)",
    "'link text is still rendered' is asserted for explicit text (an unresolvable link without text has none)",
    "each missing target name is unique, so 'exactly one warning naming it' is counted per link in one resolve pass with a cleared stream",
]

VARIANTS = {
    "base": dict(dirs=["", "a", "a/b", "c"], anchors=3, conf=""),
    "deep": dict(dirs=["", "a/b", "c/d", "c"], anchors=2, conf=""),
    "refdomains": dict(dirs=["", "a", "c"], anchors=3, conf="myst_ref_domains=['std']\n"),
    "anchors1": dict(dirs=["", "a"], anchors=1, conf=""),
    "alldirs": dict(dirs=["", "a", "a/b", "c", "c/d", "a/b/e"], anchors=3, conf=""),
    "sametitle": dict(dirs=["", "a", "a/b"], anchors=3, conf="", sametitle=True),
    "nitpick": dict(dirs=["", "a"], anchors=3, conf="nitpick_ignore_regex=[('myst', r'nodoc'), ('myst', r'nolabel'), ('myst', r'sub/no')]\n"),
    "external": dict(dirs=["", "a"], anchors=3, conf="myst_all_links_external=False\nmyst_url_schemes=['http','https']\n"),
}
QUICK = ["base", "deep", "refdomains", "sametitle", "nitpick"]


def dn(d, n):
    return (d + "/" if d else "") + n


def build_project(root, spec):
    """write the project, return (targets, links, srcs). links: dict per record"""
    src = root / "src"
    if root.exists():
        shutil.rmtree(root)
    dirs = spec["dirs"]
    for d in dirs:
        (src / d).mkdir(parents=True, exist_ok=True)
    (src / "conf.py").write_text("extensions=['myst_parser']\n" f"myst_heading_anchors={spec['anchors']}\n" "suppress_warnings=['toc.not_included']\n" + spec["conf"])
    targets = {}
    for i, d in enumerate(dirs):
        name = dn(d, f"t{i}")
        title = "Same Title" if spec.get("sametitle") else f"Title T{i}"
        (src / (name + ".md")).write_text(f"(lbl-t{i})=\n# {title} *em*\n\n## Sub\n\ntext\n\n## Sub\n\n(lbl-p{i})=\npara P{i}\n\n### Deep `code`\n\n(Lbl-Cap{i})=\n#### Capital label section\n\n## Über uns\n\n## 安装 notes\n\n## Sub\n\nthird sub\n\n## Q & A\n\n> ## Quoted head\n>\n> in a quote\n")
        (src / dn(d, f"f{i}.txt")).write_text("file")
        targets[name] = i
        # a page with the SAME file name in every directory (identical relative spelling from different source pages)
        if not (spec.get("no_common_in") == d):
            (src / (dn(d, "common") + ".md")).write_text(f"# Common in {d or 'root'}\n\n## Sub\n")
    # a page whose name (without extension) is also the name of a DIRECTORY beside it
    twin = next((d for d in dirs if d and "/" not in d), None)
    if twin:
        (src / f"{twin}.md").write_text(f"# Twin of directory {twin}\n")
    # a page none of whose headings is within the anchor depth: it has no slug table at all
    (src / "flat.md").write_text("#### Flat deep only\n\ntext\n")
    links = []
    k = 0
    srcs = {}
    for j, sd in enumerate(dirs):
        sname = dn(sd, f"s{j}")
        body = [f"# Source {j}\n"]

        def add(form, **rec):
            nonlocal k
            k += 1
            m = f"LK{k}"
            body.append(f"P{m} " + form.replace("{M}", m) + "\n")
            links.append(dict(source=sname, m=m, **rec))

        for tname, i in targets.items():
            td = posixpath.dirname(tname)
            rel = posixpath.relpath(tname + ".md", sd or ".")
            spell = {"rel": rel, "dot": "./" + rel, "abs": "/" + tname + ".md", "noext": rel[:-3], "abs-noext": "/" + tname,
                     "detour": (posixpath.join("..", posixpath.basename(sd), rel) if sd else None)}
            for sp, dest in spell.items():
                if dest is None:
                    continue
                for anchor, kind in (("", "page"), ("#sub", "sub"), ("#sub-1", "sub1"), ("#sub-2", "sub2"), ("#q--a", "amp"), ("#quoted-head", "rub"), ("#deep-code", "deep"), ("#über-uns", "uni"), ("#安装-notes", "cjk")):
                    if sp in ("noext", "abs-noext") and anchor:
                        continue
                    if kind == "deep" and spec["anchors"] < 3:
                        continue
                    if kind in ("sub", "sub1", "sub2", "amp", "rub", "uni", "cjk") and spec["anchors"] < 2:
                        continue
                    if kind in ("uni", "cjk", "sub2", "amp", "rub") and sp not in ("rel", "abs"):
                        continue
                    for explicit in (True, False):
                        add(f"[{{M}} *x*]({dest}{anchor})" if explicit else f"[]({dest}{anchor})", kind=kind, target=tname, explicit=explicit, spelling=sp)
            add(f"<project:{rel}>", kind="page", target=tname, explicit=False, spelling="project-auto")
            if spec["anchors"] >= 2:
                add(f"<project:{rel}#sub>", kind="sub", target=tname, explicit=False, spelling="project-auto")
                add(f"<project:{rel}#über-uns>", kind="uni", target=tname, explicit=False, spelling="project-auto")
                add(f"[{{M}} *x*](project:{rel}#安装-notes)", kind="cjk", target=tname, explicit=True, spelling="project-link")
            add(f"[{{M}} *x*](project:{rel})", kind="page", target=tname, explicit=True, spelling="project-link")
            add(f"[](project:{rel})", kind="page", target=tname, explicit=False, spelling="project-link-empty")
            if spec["anchors"] >= 2:
                add(f"[](project:{rel}#sub)", kind="sub", target=tname, explicit=False, spelling="project-link-empty")
            add(f"[](#lbl-t{i})", kind="label-t", target=tname, explicit=False, spelling="hash-label")
            add(f"[](lbl-t{i})", kind="label-t", target=tname, explicit=False, spelling="bare-label")
            add(f"[{{M}} *x*](#lbl-t{i})", kind="label-t", target=tname, explicit=True, spelling="hash-label")
            # (an untitled label cannot supply a text: whatever happens to this link must not affect the explicit one after it)
            add(f"[](#lbl-p{i})", kind="label-p-empty", target=tname, explicit=False, spelling="hash-label")
            add(f"[{{M}} *x*](#lbl-p{i})", kind="label-p", target=tname, explicit=True, spelling="hash-label")
            add(f"<project:#lbl-t{i}>", kind="label-t", target=tname, explicit=False, spelling="project-label")
            add(f"[](#Lbl-Cap{i})", kind="label-cap", target=tname, explicit=False, spelling="hash-label-capital")
            add(f"[{{M}} *x*](Lbl-Cap{i})", kind="label-cap", target=tname, explicit=True, spelling="bare-label-capital")
            add(f"<project:#Lbl-Cap{i}>", kind="label-cap", target=tname, explicit=False, spelling="project-label-capital")
            frel = posixpath.relpath(dn(td, f"f{i}.txt"), sd or ".")
            add(f"[{{M}} d]({frel})", kind="file", target=dn(td, f"f{i}.txt"), explicit=True, spelling="file-rel")
            add(f"<path:{frel}>", kind="file", target=dn(td, f"f{i}.txt"), explicit=False, spelling="path-auto")
            add(f"[{{M}} d](/{dn(td, f'f{i}.txt')})", kind="file", target=dn(td, f"f{i}.txt"), explicit=True, spelling="file-abs")
            # existing page, missing anchor
            add(f"[{{M}} t]({rel}#nope{k + 1})", kind="missing-anchor", target=tname, explicit=True, spelling="rel", missing=f"nope{k + 1}")
        if twin:
            trel = posixpath.relpath(twin + ".md", sd or ".")[:-3]
            add(f"[{{M}} *x*]({trel})", kind="twin", target=twin, explicit=True, spelling="noext-beside-directory")
            add(f"[](/{twin})", kind="twin", target=twin, explicit=False, spelling="abs-noext-beside-directory")
            add(f"[]({trel}.md)", kind="twin", target=twin, explicit=False, spelling="rel-beside-directory")
        frel = posixpath.relpath("flat.md", sd or ".")
        add(f"[{{M}} t]({frel}#flat-deep-only)", kind="missing-anchor", target="flat", explicit=True, spelling="rel-unanchored-page", missing="flat-deep-only")
        add(f"[{{M}} t](/flat.md#nope{k + 1})", kind="missing-anchor", target="flat", explicit=True, spelling="abs-unanchored-page", missing=f"nope{k + 1}")
        # same spelling from every directory: 'common.md' is the page next to the source page
        add("[](common.md)", kind="common", target=dn(sd, "common"), explicit=False, spelling="same-name")
        add("[{M} *x*](common.md#sub)", kind="common-sub", target=dn(sd, "common"), explicit=True, spelling="same-name")
        add("[](./common.md)", kind="common", target=dn(sd, "common"), explicit=False, spelling="same-name-dot")
        for form, sp in (("[{M} t](nodoc{K}.md)", "doc"), ("[{M} t](#nolabel{K})", "label"), ("<project:nodoc{K}.md>", "doc-auto"), ("[{M} t](sub/nodoc{K}.md#x)", "doc-anchor"),
                         ("[](nolabel{K})", "bare"), ("[{M} t](project:#nolabel{K})", "project-label"),
                         ("[{M} t](#NoLabel-Up{K})", "label-mixed-case")):  # the warning names the destination AS WRITTEN
            kk = k + 1
            add(form.replace("{K}", str(kk)), kind="missing", target=None, explicit="{M}" in form, spelling=sp,
                missing=(f"nodoc{kk}" if "nodoc" in form else f"NoLabel-Up{kk}" if "NoLabel-Up" in form else f"nolabel{kk}"))
        (src / (sname + ".md")).write_text("\n".join(body))
        srcs[sname] = j
    commons = [dn(d, "common") for d in dirs]
    (src / "index.md").write_text("# Index\n\n```{toctree}\n" + "\n".join(list(targets) + list(srcs) + commons + ["flat"] + ([twin] if twin else [])) + "\n```\n")
    return src, targets, links, srcs, twin


class ProjectSystem(System):
    name = "projects"
    chunk = 1

    def __init__(self, tier):
        super().__init__(tier)
        self.variants = QUICK if tier == "quick" else list(VARIANTS)
        self.description = (f"{len(self.variants)} generated projects ({', '.join(self.variants)}): one source and one target page per directory; every source page links to every target "
                            "(page, heading anchor, duplicate-title anchor '-1', depth-3 anchor, title label, paragraph label, non-document file, missing anchor) in every spelling "
                            "(relative, ./, detour through .., leading /, no extension, <project:>, [](project:), '#label', bare label, <path:>) with explicit and empty text, plus 7 missing-target forms (one with upper-case letters)")

    def prepare(self, ctx):
        self.root = ctx.scratch / "c12"
        self.root.mkdir(exist_ok=True)

    def bounds(self):
        return {"projects": len(self.variants), "max_dirs": max(len(VARIANTS[v]["dirs"]) for v in self.variants)}

    def alphabet(self):
        return {v: {k: x for k, x in VARIANTS[v].items()} for v in self.variants}

    def rule(self):
        return "one case = (project, source page): all its links are resolved and compared (transitions = links); non-trivial = always"

    def cases(self):
        for v in self.variants:
            for j in range(len(VARIANTS[v]["dirs"])):
                yield [v, j]

    def run(self, case):
        from sphinx.testing.util import SphinxTestApp

        v, j = case
        spec = VARIANTS[v]
        root = self.root / f"{v}-{j}"
        src, targets, links, srcs, twin = build_project(root, spec)
        app = SphinxTestApp(srcdir=src, buildername="html")
        viol = []
        n = 0
        dig = []
        try:
            app.build()
            sname = [s for s, jj in srcs.items() if jj == j][0]
            tid = {}
            for tname in targets:
                dt = app.env.get_doctree(tname)
                secs = list(dt.findall(nodes.section))
                tid[tname] = {
                    "page": "", "sub": secs[1]["ids"][0], "sub1": secs[2]["ids"][0], "deep": secs[3]["ids"][0],
                    "label-t": [i_ for i_ in secs[0]["ids"] if "lbl" in i_][0],
                    "label-p": [p["ids"][0] for p in dt.findall(nodes.paragraph) if p["ids"]][0],
                    "title": secs[0][0].astext(), "subtitle": "Sub", "deeptitle": secs[3][0].astext(),
                    "label-cap": [i_ for i_ in secs[4]["ids"] if "lbl-cap" in i_.lower()][0], "captitle": secs[4][0].astext(),
                    "uni": secs[5]["ids"][0], "unititle": secs[5][0].astext(), "cjk": secs[6]["ids"][0], "cjktitle": secs[6][0].astext(), "sub2": secs[7]["ids"][0], "amp": secs[8]["ids"][0], "rub": [r["ids"][0] for r in dt.findall(nodes.rubric) if r["ids"]][0],
                }
            app._warning.truncate(0)
            app._warning.seek(0)
            app.env._write_doc_doctree_cache.pop(sname, None) if hasattr(app.env, "_write_doc_doctree_cache") else None
            dt = app.env.get_and_resolve_doctree(sname, app.builder)
            warns = re.sub(r"\x1b\[[0-9;]*m", "", app._warning.getvalue())
            paras = {p.astext().split()[0][1:]: p for p in dt.findall(nodes.paragraph) if p.astext().startswith("PLK")}
            sd = posixpath.dirname(sname)
            for L in links:
                if L["source"] != sname:
                    continue
                n += 1
                m, kind = L["m"], L["kind"]
                p = paras.get(m)

                def bad(clause, msg, **sig):
                    viol.append(violation(clause, {"clause": clause, "kind": kind, "spelling": L["spelling"], "explicit": L["explicit"], **sig},
                                          f"[{v}] {sname}: link {m} ({kind}, {L['spelling']}, {'explicit' if L['explicit'] else 'empty'} text) -> {L['target']}: {msg}",
                                          project=v, source=sname, paragraph=p.pformat() if p is not None else None))

                if p is None:
                    bad("link-kept", "the paragraph holding the link disappeared")
                    continue
                refs = [r for r in p.findall(lambda x: isinstance(x, nodes.reference) or x.tagname == "download_reference")]
                if kind in ("page", "sub", "sub1", "sub2", "amp", "rub", "deep", "label-t", "label-p", "label-cap", "uni", "cjk"):
                    tname = L["target"]
                    frag = tid[tname][kind]
                    exp = posixpath.relpath(tname + ".html", sd or ".") + ("#" + frag if frag else "")
                    if len(refs) != 1:
                        bad("resolve", f"{len(refs)} reference nodes (expected one resolving to {exp}); warnings: {[w for w in warns.splitlines() if m in w][:1]}")
                        continue
                    got = refs[0].get("refuri") or ("#" + str(refs[0].get("refid")) if refs[0].get("refid") else "")
                    gpath, _, gfrag = got.partition("#")
                    if tname == sname.replace("/s", "/t") and False:
                        pass
                    norm = (posixpath.normpath(gpath) if gpath else posixpath.basename(sname) + ".html") + ("#" + gfrag if gfrag else "")
                    if norm != exp:
                        bad("uri", f"refuri {got!r}, expected {exp!r}")
                    txt = refs[0].astext()
                    if L["explicit"]:
                        if txt != f"{m} x" or not list(refs[0].findall(nodes.emphasis)):
                            bad("text", f"explicit text {txt!r}, written '{m} *x*'", which="explicit")
                    else:
                        want = {"page": tid[tname]["title"], "sub": "Sub", "sub1": "Sub", "sub2": "Sub", "amp": "Q & A", "rub": "Quoted head", "deep": tid[tname]["deeptitle"], "label-t": tid[tname]["title"], "label-cap": tid[tname]["captitle"], "uni": tid[tname]["unititle"], "cjk": tid[tname]["cjktitle"]}[kind]
                        if txt != want:
                            bad("text", f"empty link text filled with {txt!r}, the target's title is {want!r}", which="implicit")
                    if any(x in warns for x in (f"'{tname}'", m)) and "xref_missing" in "".join(w for w in warns.splitlines() if m in w):
                        bad("spurious-warning", "resolved link also warned")
                    dig.append((kind, norm))
                elif kind == "twin":
                    exp = posixpath.relpath(twin + ".html", sd or ".")
                    uris = [posixpath.normpath(r.get("refuri", "")) for r in refs if isinstance(r, nodes.reference)]
                    if uris != [exp] or len(refs) != 1:
                        bad("uri", f"link to the page {twin}.md (a directory {twin}/ exists beside it): got {[(r.tagname, r.get('refuri'), r.get('filename')) for r in refs]}, expected one reference to {exp}")
                    elif not L["explicit"] and refs[0].astext() != f"Twin of directory {twin}":
                        bad("text", f"empty link text filled with {refs[0].astext()!r}", which="implicit")
                    dig.append((kind, tuple(uris)))
                elif kind == "label-p-empty":
                    tname = L["target"]
                    exp = posixpath.relpath(tname + ".html", sd or ".") + "#" + tid[tname]["label-p"]
                    uris = [posixpath.normpath(r.get("refuri", "").partition("#")[0]) + "#" + r.get("refuri", "").partition("#")[2] for r in refs if r.get("refuri")]
                    warned = [w for w in warns.splitlines() if f"lbl-p{targets[tname]}" in w and "xref_missing" in w]
                    if not ((uris == [exp] and not warned) or (not uris and len(warned) == 1)):
                        bad("resolve", f"empty-text link to an untitled label: neither resolved to {exp} nor reported once (uris {uris}, warnings {warned})")
                    dig.append((kind, bool(uris)))
                elif kind in ("common", "common-sub"):
                    exp = "common.html" + ("#sub" if kind == "common-sub" else "")
                    want = f"Common in {sd or 'root'}"
                    if len(refs) != 1:
                        bad("resolve", f"{len(refs)} reference nodes for the page next to the source page")
                    else:
                        got = refs[0].get("refuri") or ""
                        if posixpath.normpath(got.partition("#")[0]) + ("#" + got.partition("#")[2] if "#" in got else "") != exp:
                            bad("uri", f"refuri {got!r}, expected {exp!r} (the common.md in the source page's own directory)")
                        elif kind == "common" and refs[0].astext() != want:
                            bad("text", f"link text {refs[0].astext()!r}, the title of the page in this directory is {want!r}", which="implicit")
                    dig.append((kind, len(refs)))
                elif kind == "file":
                    if not (len(refs) == 1 and refs[0].tagname == "download_reference" and str(refs[0].get("filename", "")).endswith(posixpath.basename(L["target"]))):
                        bad("download", f"expected a download_reference to {L['target']}, got {[(r.tagname, r.attributes.get('refuri'), r.attributes.get('filename')) for r in refs]}")
                    elif L["explicit"] and not refs[0].astext().startswith(m):
                        bad("text", f"explicit text lost: {refs[0].astext()!r}", which="explicit")
                    dig.append((kind, len(refs)))
                else:  # missing / missing-anchor
                    name = L["missing"]
                    hits = [w for w in warns.splitlines() if name in w]
                    tagged = [w for w in hits if "[myst.xref_missing]" in w]
                    if len(tagged) != 1:
                        bad("missing-warning", f"{len(tagged)} [myst.xref_missing] warnings naming {name!r} (all lines naming it: {hits})")
                    if L["explicit"] and m not in p.astext().split("P" + m, 1)[-1]:
                        bad("missing-text", "the explicit text of an unresolvable link is no longer rendered")
                    if any(r.get("refuri", "").endswith(".html") for r in refs if isinstance(r, nodes.reference)) and kind == "missing":
                        bad("missing-resolved", f"a missing target resolved to {[r.get('refuri') for r in refs]}")
                    dig.append((kind, len(tagged)))
        finally:
            app.cleanup()
            shutil.rmtree(root, ignore_errors=True)
        # keep at most a few violations per distinct signature
        seen, out = {}, []
        for x in viol:
            key = repr(x["signature"])
            seen[key] = seen.get(key, 0) + 1
            if seen[key] <= 1:
                out.append(x)
        return Obs(digest=(v, j, tuple(dig)), violations=out[:8], transitions=n, validated=n, stats={"links": n})


def systems(tier):
    return [ProjectSystem(tier)]
