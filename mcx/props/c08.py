"""C08 — directive text splits into arguments, options, body without loss or leakage.

programs x inputs (DESIGN.md §4 C08): every directive class of the docutils registry and (after an
in-process Sphinx app was created) of Sphinx's registry and domains  x  first line  x  every sequence
of <= k content lines over a vocabulary of option / delimiter / blank / text lines  x  final newline
x  additional_options.  Reference model: a splitter written from the module docstring; option pairs
are read from the block by PyYAML (the C07 reference), converted by the class's own option spec.
"""

from __future__ import annotations

import functools
import importlib
import itertools
import re
from textwrap import dedent

from ..engine import Obs, System, violation
from .c07 import yaml_pairs

PROPERTY_ID = "C08"
LEVEL = "model_checking"
ASSUMPTIONS = [
    "reference splitter = mcx/props/c08.py:model(), written from the docstring of myst_parser/parsers/directives.py",
    "pairs inside an option block are those PyYAML reports when the block is inside the C07 subset; blocks outside it only have to yield a result or one 'Invalid options format' warning",
    "body compared modulo trailing blank lines; offset asserted whenever the (stripped) body is non-empty and the first line was not merged into the body",
    "'one warning each' read as: every dropped option is named in exactly one warning",
    "closing delimiters with trailing text ('--- x') are not in the vocabulary",
    "the advisory 'Splitting content across first line and body' warning is allowed but not required",
]

from docutils.parsers.rst import directives as du_directives  # noqa: E402
from docutils.parsers.rst.directives import flag  # noqa: E402
from docutils.parsers.rst.directives.misc import TestDirective  # noqa: E402
from docutils.parsers.rst.states import MarkupError  # noqa: E402

from myst_parser.parsers.directives import parse_directive_text  # noqa: E402

VOC = [
    ":class: x", ":name: n", ":bogus: 1", ":class:", "  :name: m", "---", "-----", "class: x", "bogus: 1",
    "", "text", "  indented", ":notopt", ":name: n # c", ":@1: 1", ":@1: x", ":class: a\u00a0b", ":name: n\u3000m",
]
FIRST = ["", "x", "x y", "x y z"]
ADDL = [None, {"class": "y"}, {"zzz": "1"}]


def directive_classes():
    """name -> class for every directive docutils and the in-process Sphinx app know."""
    out = {}
    for name, (modname, clsname) in sorted(du_directives._directive_registry.items()):
        try:
            mod = importlib.import_module("docutils.parsers.rst.directives." + modname)
            out["du:" + name] = getattr(mod, clsname)
        except Exception:
            pass
    return out


def sphinx_classes(scratch):
    from ..drivers import SphinxDriver

    d = SphinxDriver(scratch / "c08sx", build=False)
    out = {}
    for name, cls in sorted(du_directives._directives.items()):
        out["sx:" + name] = cls
    for dname, dom in sorted(d.app.registry.domains.items()):
        for name, cls in sorted(dom.directives.items()):
            out[f"sx:{dname}:{name}"] = cls
    d.close()
    return out


def class_signature(cls):
    spec = cls.option_spec or {}
    return (cls.required_arguments, cls.optional_arguments, bool(cls.final_argument_whitespace), bool(cls.has_content),
            bool(spec), "class" in spec, "name" in spec)


@functools.lru_cache(maxsize=200_000)
def ref_pairs(block: str):
    pairs, why, _ = yaml_pairs(block)
    if pairs is None and block.strip() == "":
        return ()
    return None if pairs is None else tuple(pairs)


def strip_trailing(lines):
    lines = list(lines)
    while lines and not lines[-1].strip():
        lines.pop()
    return lines


def model(cls, first, content, addl):
    """-> dict(args|'ERR', body, offset|None, pairs|None, has_block, comment)"""
    L = content.splitlines()
    body, off, block, has_block = L, 0, None, False
    if cls.option_spec:
        if L and L[0].startswith("---"):
            has_block = True
            k = next((j for j in range(1, len(L)) if re.match(r"^-{3,}", L[j])), None)
            block = dedent("\n".join(L[1:k] if k is not None else L[1:]))
            body = L[k + 1:] if k is not None else []
            off = (k + 1) if k is not None else len(L)
        elif L and L[0].lstrip().startswith(":"):
            has_block = True
            k = 0
            while k < len(L) and L[k].lstrip().startswith(":"):
                k += 1
            block = "\n".join(l.lstrip()[1:] for l in L[:k])
            body, off = L[k:], k
    merged = False
    if not (cls.required_arguments or cls.optional_arguments):
        args = []
        if first.strip():
            body = [first, *body]
            merged = True
    else:
        a = first.split()
        r, o = cls.required_arguments, cls.optional_arguments
        if len(a) < r:
            return {"args": "ERR"}
        if len(a) > r + o:
            if cls.final_argument_whitespace:
                a = first.split(None, r + o - 1)
            else:
                return {"args": "ERR"}
        args = a
    if body and not body[0].strip():
        body = body[1:]
        off += 1
    pairs = None if block is None else ref_pairs(block)
    return {"args": args, "body": strip_trailing(body), "offset": None if merged else off, "block": block,
            "pairs": pairs if block is not None else (), "has_block": has_block}


def expected_options(cls, pairs, addl):
    """(options dict, unknown names, invalid names) from the reference pairs."""
    spec = cls.option_spec
    merged = dict(addl or {})
    merged.update(dict(pairs))
    opts, unknown, invalid = {}, [], []
    for name, value in merged.items():
        if name not in spec:
            unknown.append(name)
            continue
        conv = spec[name]
        v = value or None
        if conv is flag:
            v = None
        try:
            opts[name] = conv(v)
        except (ValueError, TypeError):
            invalid.append(name)
    return opts, unknown, invalid


def safe_eq(a, b):
    try:
        return a == b or repr(a) == repr(b)
    except Exception:
        return repr(a) == repr(b)


class SplitSystem(System):
    name = "split"
    chunk = 1

    def __init__(self, tier):
        super().__init__(tier)
        self.k = 3 if tier == "quick" else 4
        self.description = (
            f"every directive class (docutils registry + Sphinx registry/domains) x first line in {FIRST} x additional_options in {ADDL} x "
            f"every content of <= {self.k - 1} lines over a {len(VOC)}-line vocabulary, with and without final newline; "
            f"contents of exactly {self.k} lines for one representative class per (declaration signature, option converters of the vocabulary keys)"
        )

    def prepare(self, ctx):
        self.classes = directive_classes()
        self.classes.update(sphinx_classes(ctx.scratch))
        self.classes = {k: v for k, v in self.classes.items() if not issubclass(v, TestDirective)}

    def bounds(self):
        return {"lines": self.k, "classes": len(getattr(self, "classes", {})),
                "class_signatures": len({class_signature(c) for c in getattr(self, "classes", {}).values()})}

    def alphabet(self):
        return {"lines": VOC, "first": FIRST, "additional_options": ADDL,
                "note": "'@1' is replaced by the first option name of the class other than class/name"}

    def rule(self):
        return ("one case = (class, first line, additional options): every content up to the bound is split (transitions = calls); "
                "non-trivial = at least one content yields an option block with >= 1 accepted option and a non-empty body")

    def rep_key(self, cls):
        spec = cls.option_spec or {}
        voc = self.vocab(cls)
        names = {m.group(1) for v in voc for m in [re.match(r"\s*:?([\w-]+):", v)] if m}
        return (class_signature(cls), tuple(sorted((n, getattr(spec[n], "__qualname__", repr(spec[n]))) for n in names if n in spec)))

    def cases(self):
        seen = {}
        reps = set()
        for key, cls in self.classes.items():
            ident = id(cls)
            if ident in seen:
                continue  # the same class registered under two names
            seen[ident] = key
            rk = self.rep_key(cls)
            deep = rk not in reps
            reps.add(rk)
            for fi in range(len(FIRST)):
                for ai in range(len(ADDL)):
                    if ai == 2 and fi > 1:
                        continue
                    yield [key, fi, ai, self.k if deep else self.k - 1]

    def vocab(self, cls):
        spec = cls.option_spec or {}
        extra = [n for n in sorted(spec) if n not in ("class", "name") and re.fullmatch(r"[A-Za-z][\w-]*", n)]
        if extra:
            return [v.replace("@1", extra[0]) for v in VOC]
        return [v for v in VOC if "@1" not in v]

    def run(self, case):
        key, fi, ai, depth = case
        cls = self.classes[key]
        first, addl = FIRST[fi], ADDL[ai]
        voc = self.vocab(cls)
        viol = []
        n = 0
        good = 0
        outcomes = 0
        featseen = set()
        for k in range(depth + 1):
            for lines in itertools.product(voc, repeat=k):
                for nl in ("", "\n"):
                    if not lines and nl:
                        continue
                    content = "\n".join(lines) + nl
                    n += 1
                    v, ok, oc = self.check(cls, key, first, content, addl)
                    good += ok
                    outcomes = (outcomes * 1000003 + oc) & 0xFFFFFFFFFFFF
                    for x in v:
                        fk = repr(x["signature"])
                        if fk not in featseen and len(viol) < 6:
                            featseen.add(fk)
                            viol.append(x)
        return Obs(digest=(class_signature(cls), fi, ai, outcomes), nontrivial=good > 0, violations=viol,
                   transitions=n, validated=n, canon=(class_signature(cls), tuple(voc), fi, ai, depth))

    def check(self, cls, key, first, content, addl):
        m = model(cls, first, content, addl)
        viol = []

        def bad(component, msg, **feat):
            L = content.splitlines()
            sig = {"clause": component, "trailing_blank": bool(L) and not L[-1].strip(),
                   "has_block": bool(m.get("has_block")), **feat}
            viol.append(violation(component, sig, f"{key} first={first!r} content={content!r}: {msg}",
                                  cls=key, first=first, content=content, additional_options=addl, model=repr(m)))

        try:
            r = parse_directive_text(cls, first, content, line=0, additional_options=addl)
        except MarkupError as exc:
            if m["args"] != "ERR":
                bad("args", f"MarkupError({exc}) but the declaration admits these arguments")
            return viol, 0, 1
        if m["args"] == "ERR":
            bad("args", f"argument count violates the declaration but arguments {r.arguments} were accepted")
            return viol, 0, 2
        if r.arguments != m["args"]:
            bad("args", f"arguments {r.arguments}, expected {m['args']}")
        got_body = strip_trailing(r.body)
        if got_body != m["body"]:
            bad("body", f"body {r.body}, expected {m['body']}")
        elif m["body"] and m["offset"] is not None and r.body_offset != m["offset"]:
            bad("offset", f"body_offset {r.body_offset}, expected {m['offset']} (index of {m['body'][0]!r} in content.splitlines())",
                delta=r.body_offset - m["offset"])
        msgs = [w.msg for w in r.warnings]
        fmt = [x for x in msgs if x.startswith("Invalid options format")]
        ok = 0
        if cls.option_spec and m["pairs"] is not None:
            opts, unknown, invalid = expected_options(cls, m["pairs"], addl)
            if fmt:
                bad("options", f"option block {m['block']!r} is valid YAML-subset text but was rejected: {fmt}")
            else:
                if set(r.options) != set(opts) or not all(safe_eq(r.options[k], opts[k]) for k in opts):
                    bad("options", f"options {r.options}, expected {opts}",
                        leak=bool(set(r.options) - set(opts)), lost=bool(set(opts) - set(r.options)))
                unk = [x for x in msgs if x.startswith("Unknown option keys")]
                named = []
                for x in unk:
                    mm = re.match(r"Unknown option keys: (\[.*?\]) \(allowed", x, re.S)
                    named += eval(mm.group(1)) if mm else []
                if sorted(named) != sorted(unknown):
                    bad("warnings", f"unknown options {sorted(unknown)} but warnings name {sorted(named)}", kind="unknown")
                inv = [re.match(r"Invalid option value for '(.*?)'", x) for x in msgs if x.startswith("Invalid option value")]
                inv_named = sorted(i.group(1) for i in inv if i)
                if inv_named != sorted(invalid):
                    bad("warnings", f"invalid-valued options {sorted(invalid)} but warnings name {inv_named}", kind="invalid")
                has_comment = any(re.search(r"(^|\s)#", ln) for ln in (m["block"] or "").splitlines())
                com = [x for x in msgs if "# comments" in x]
                if len(com) != int(has_comment):
                    bad("warnings", f"{len(com)} comment warnings for a block {'with' if has_comment else 'without'} comments", kind="comments")
                ok = int(bool(opts) and bool(m["body"]))
        elif not cls.option_spec:
            if r.options:
                bad("options", f"class declares no options but options {r.options} were returned", leak=True, lost=False)
        known = ("Invalid options format", "Unknown option keys", "Invalid option value", "Directive options has # comments",
                 "Has content, but none permitted", "Splitting content across first line")
        for x in msgs:
            if not x.startswith(known):
                bad("warnings", f"unclassified warning {x!r}", kind="unclassified")
        hc = [x for x in msgs if x.startswith("Has content")]
        if not cls.has_content and m["body"] and len(hc) != 1:
            bad("warnings", f"content given to a content-less directive but {len(hc)} warnings", kind="has-content")
        if (cls.has_content or not r.body) and hc:
            bad("warnings", "spurious 'Has content' warning", kind="has-content")
        oc = hash((tuple(r.arguments), tuple(got_body), r.body_offset, repr(sorted(r.options.items(), key=repr)), tuple(msgs))) & 0xFFFF
        return viol, ok, oc


class MetaSystem(System):
    """colon-style block rewritten as a ----delimited block: nothing but the offset changes."""

    name = "styles"
    chunk = 1

    def __init__(self, tier):
        super().__init__(tier)
        self.k = 3 if tier == "quick" else 4
        self.description = (f"for representative classes: every colon-style option block of <= {self.k} option lines x body of <= 2 lines, rewritten "
                            "as a '---' block; arguments, options, body and warnings must be identical, offset + 2")

    OPT = [":class: x", ":name: n", ":bogus: 1", ":class:", ":name: n # c", ":@1: 1", ":@1: x"]
    BODY = ["", "text", "  indented", "class: x"]

    def prepare(self, ctx):
        allc = directive_classes()
        allc.update(sphinx_classes(ctx.scratch))
        reps = {}
        for key, cls in allc.items():
            if issubclass(cls, TestDirective) or not cls.option_spec:
                continue
            reps.setdefault(class_signature(cls), key)
        self.classes = {k: allc[k] for k in reps.values()}

    def bounds(self):
        return {"option_lines": self.k, "body_lines": 2, "classes": len(getattr(self, "classes", {}))}

    def rule(self):
        return "one case = (class, first line); non-trivial = some block yields >= 1 accepted option"

    def cases(self):
        for key in self.classes:
            for fi in range(len(FIRST)):
                yield [key, fi]

    def run(self, case):
        key, fi = case
        cls = self.classes[key]
        first = FIRST[fi]
        spec = cls.option_spec
        extra = [n for n in sorted(spec) if n not in ("class", "name") and re.fullmatch(r"[A-Za-z][\w-]*", n)]
        opt = [o.replace("@1", extra[0]) for o in self.OPT] if extra else [o for o in self.OPT if "@1" not in o]
        viol, n, good = [], 0, 0
        for ko in range(1, self.k + 1):
            for ol in itertools.product(opt, repeat=ko):
                for kb in range(0, 3):
                    for bl in itertools.product(self.BODY, repeat=kb):
                        for nl in ("", "\n"):
                            colon = "\n".join((*ol, *bl)) + nl
                            dashed = "\n".join(("---", *(o[1:] for o in ol), "---", *bl)) + nl
                            n += 1
                            if kb <= 1 and ko <= 2:
                                # blank lines inside the delimited block (after the opener / before the closer) are part of the block
                                for blank_variant, extra in ((("---", "", *(o[1:] for o in ol), "---", *bl), 3), (("---", *(o[1:] for o in ol), "", "---", *bl), 3),
                                                             (("---", "", *(o[1:] for o in ol), "", "", "---", *bl), 5)):
                                    try:
                                        a0 = parse_directive_text(cls, first, colon, line=0)
                                        b0 = parse_directive_text(cls, first, "\n".join(blank_variant) + nl, line=0)
                                    except MarkupError:
                                        continue
                                    merged0 = not (cls.required_arguments or cls.optional_arguments) and first.strip()
                                    if strip_trailing(a0.body) and not merged0 and (b0.body_offset != a0.body_offset + extra or strip_trailing(a0.body) != strip_trailing(b0.body)
                                                                                   or repr(a0.options) != repr(b0.options)) and len(viol) < 3:
                                        viol.append(violation("styles", {"clause": "styles", "field": "offset-blank-in-block"},
                                                              f"{key} first={first!r}: '---' block with blank lines: offset {b0.body_offset} body {b0.body} options {b0.options}; "
                                                              f"colon style: offset {a0.body_offset} (+{extra} expected) body {a0.body} options {a0.options}",
                                                              colon=colon, dashed="\n".join(blank_variant) + nl))
                            try:
                                a = parse_directive_text(cls, first, colon, line=0)
                                ea = None
                            except MarkupError as exc:
                                a, ea = None, str(exc)
                            try:
                                b = parse_directive_text(cls, first, dashed, line=0)
                                eb = None
                            except MarkupError as exc:
                                b, eb = None, str(exc)
                            if a is None or b is None:
                                if ea != eb and len(viol) < 3:
                                    viol.append(violation("styles", {"clause": "styles", "field": "error"},
                                                          f"{key}: colon style -> {ea}, dashed style -> {eb}", colon=colon, dashed=dashed))
                                continue
                            good += bool(a.options)
                            diffs = []
                            if a.arguments != b.arguments:
                                diffs.append("arguments")
                            if repr(a.options) != repr(b.options):
                                diffs.append("options")
                            if strip_trailing(a.body) != strip_trailing(b.body):
                                diffs.append("body")
                            if sorted(w.msg for w in a.warnings) != sorted(w.msg for w in b.warnings):
                                diffs.append("warnings")
                            merged = not (cls.required_arguments or cls.optional_arguments) and first.strip()
                            if strip_trailing(a.body) and not merged and b.body_offset != a.body_offset + 2:
                                diffs.append("offset")
                            if diffs and len(viol) < 3:
                                viol.append(violation("styles", {"clause": "styles", "field": diffs[0],
                                                                 "trailing_blank": bool(bl) and not bl[-1].strip() or (not bl and False)},
                                                      f"{key} first={first!r}: the two option styles differ in {diffs}: colon {a} / dashed {b}",
                                                      colon=colon, dashed=dashed))
        return Obs(digest=(class_signature(cls), fi, n, good), nontrivial=good > 0, violations=viol, transitions=2 * n, validated=n)


HIST_VALUES = ["top", "left", "1", "-1", "x", "50%", "3", "yes"]


def _parse_alone(cls, opt, val):
    try:
        r = parse_directive_text(cls, " ".join(["x"] * cls.required_arguments), f":{opt}: {val}\n\nbody", line=0)
        return (repr(r.options), sorted(w.msg for w in r.warnings))
    except MarkupError as exc:
        return ("ERR", str(exc))


class ConverterHistorySystem(System):
    """programs x histories: the conversion of an option must depend on the class's OWN option spec, not on an earlier directive."""

    name = "converter-history"
    fork_per_case = True
    chunk = 1

    def __init__(self, tier):
        super().__init__(tier)
        self.description = ("every ordered pair of registered directive classes that share an option name with DIFFERENT converters x 8 option values: the second class is parsed after "
                            "the first in one fresh process; its options and warnings must equal those of the second class parsed first in another fresh process")

    def prepare(self, ctx):
        allc = directive_classes()
        allc.update(sphinx_classes(ctx.scratch))
        byopt = {}
        seen = set()
        for key, cls in sorted(allc.items()):
            if issubclass(cls, TestDirective) or not cls.option_spec or id(cls) in seen:
                continue
            seen.add(id(cls))
            for opt, conv in cls.option_spec.items():
                if opt in ("class", "name") or not re.fullmatch(r"[A-Za-z][\w-]*", opt):
                    continue
                byopt.setdefault(opt, []).append((key, cls, getattr(conv, "__qualname__", repr(conv))))
        self.classes = allc
        self.pairs = []
        for opt, lst in sorted(byopt.items()):
            # one representative class per converter
            reps = {}
            for key, cls, cq in lst:
                reps.setdefault(cq, key)
            keys = list(reps.values())
            for a in keys:
                for b in keys:
                    if a != b:
                        self.pairs.append([opt, a, b])

    def bounds(self):
        return {"pairs": len(getattr(self, "pairs", [])), "values": len(HIST_VALUES)}

    def rule(self):
        return "one case = (option, class A, class B): all values (transitions); non-trivial = A and B convert some value differently"

    def cases(self):
        yield from self.pairs

    def run(self, case):
        from .c15 import in_child

        opt, ka, kb = case
        A, B = self.classes[ka], self.classes[kb]
        viol = []
        diff = 0
        # baseline of B in its own fresh process (this worker never parses anything itself)
        base = in_child(lambda: [_parse_alone(B, opt, v) for v in HIST_VALUES])
        alone_a = []
        after = []
        for v in HIST_VALUES:
            alone_a.append(_parse_alone(A, opt, v))
            after.append(_parse_alone(B, opt, v))
        for v, x, y, z in zip(HIST_VALUES, after, base, alone_a):
            diff += x != z
            if x != y and len(viol) < 2:
                viol.append(violation("history", {"clause": "converter-history", "option": opt},
                                      f":{opt}: {v} on {kb} gives {x} after the same option was parsed for {ka}, but {y} in a fresh process", option=opt, value=v, first=ka, second=kb))
        return Obs(digest=(opt, ka, kb, repr(after)), nontrivial=diff > 0, violations=viol, transitions=2 * len(HIST_VALUES), validated=len(HIST_VALUES))


class TestDirectiveSystem(System):
    """docutils' test directive accepts every option: its split (arguments, body, offset) obeys the same rule as any other class"""

    name = "test-directive"

    def __init__(self, tier):
        super().__init__(tier)
        self.k = 3 if tier == "quick" else 4
        self.description = f"restructuredtext-test-directive x first line in {FIRST} x every content of <= {self.k} lines over the vocabulary: arguments, body lines and body offset against the model"

    def bounds(self):
        return {"lines": self.k}

    def rule(self):
        return "one case = (first line, content); non-trivial = an option block and a body"

    def cases(self):
        voc = [v for v in VOC if "@1" not in v]
        for fi in range(len(FIRST)):
            for n in range(self.k + 1):
                for ls in itertools.product(voc, repeat=n):
                    yield [fi, "\n".join(ls)]

    def run(self, case):
        fi, content = case
        first = FIRST[fi]
        m = model(TestDirective, first, content, None)
        viol = []
        try:
            r = parse_directive_text(TestDirective, first, content, line=0)
        except MarkupError:
            return Obs(digest="markup-error", nontrivial=False)
        if m["args"] != "ERR":
            if strip_trailing(r.body) != m["body"]:
                viol.append(violation("body", {"clause": "body", "cls": "test-directive"}, f"first={first!r} content={content!r}: body {r.body}, expected {m['body']}", content=content))
            elif m["body"] and m["offset"] is not None and r.body_offset != m["offset"]:
                viol.append(violation("offset", {"clause": "offset", "cls": "test-directive", "delta": r.body_offset - m["offset"]},
                                      f"first={first!r} content={content!r}: body_offset {r.body_offset}, expected {m['offset']}", content=content))
        return Obs(digest=(tuple(r.body), r.body_offset), nontrivial=bool(m.get("has_block") and m.get("body")), violations=viol)


def systems(tier):
    return [SplitSystem(tier), TestDirectiveSystem(tier), MetaSystem(tier), ConverterHistorySystem(tier)]
