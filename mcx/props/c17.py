"""C17 — HTML blocks: verbatim pass-through, img/admonition = directives, GFM tag filter.

Systems (DESIGN.md §4 C17):
  passthrough  HTML fragments (1-2 top-level elements) x contexts x the 4 html_image/html_admonition combinations:
               non-convertible HTML = one raw node per html token with exactly the token content
  image        <img> x attribute x value pool (characters significant to the option syntax), block and inline:
               same nodes as the {image} directive written from the same attribute dictionary
  admonition   <div class="admonition ..."> x title forms x body forms x attributes: same nodes as {admonition}
  gfm          9 disallowed names x open/close x case x following character x position: no such tag survives
"""

from __future__ import annotations

import io
import itertools
import json
import re
from html.parser import HTMLParser

from docutils import nodes
from docutils.frontend import get_default_settings
from docutils.utils import new_document

from ..engine import Obs, System, violation

PROPERTY_ID = "C17"
LEVEL = "model_checking"
ASSUMPTIONS = [
    "token side = markdown-it token stream of create_md_parser(config, RendererHTML) for the same text",
    "directive spelling written by the harness from the attribute dictionary with every value double-quoted (JSON escapes), only the documented option keys",
    "GFM mode = create_md_parser(gfm_only config) with the linkify rule disabled (linkify-it-py is not importable), as the property allows",
    "tag scan of the filtered text = the standard library's html.parser",
    "attribute values are generated without double quotes and line breaks (they cannot be written in a double-quoted HTML attribute verbatim)",
]

from markdown_it.renderer import RendererHTML  # noqa: E402

from myst_parser.config.main import MdParserConfig  # noqa: E402
from myst_parser.mdit_to_docutils.base import DocutilsRenderer  # noqa: E402
from myst_parser.parsers.docutils_ import Parser  # noqa: E402
from myst_parser.parsers.mdit import create_md_parser  # noqa: E402

_SET = None


def render(text, cfg, gfm=False):
    global _SET
    if _SET is None:
        _SET = get_default_settings(Parser)
    ws = io.StringIO()
    s = _SET.copy()
    s.halt_level = 5
    s.report_level = 2
    s.warning_stream = ws
    doc = new_document("/src/index.md", s)
    md = create_md_parser(cfg, DocutilsRenderer)
    if gfm:
        md.disable("linkify")
        md.options["linkify"] = False
    md.options["document"] = doc
    md.render(text)
    return doc, ws.getvalue()


def html_tokens(text, cfg, gfm=False):
    md = create_md_parser(cfg, RendererHTML)
    if gfm:
        md.disable("linkify")
        md.options["linkify"] = False
    out = []

    def rec(ts):
        for t in ts:
            if t.type in ("html_block", "html_inline"):
                out.append(t.content)
            if t.children:
                rec(t.children)

    rec(md.parse(text))
    return out


def pf(node):
    d = node.deepcopy()
    for n in d.findall():
        if isinstance(n, nodes.Element):
            for k in ("line", "source"):
                n.attributes.pop(k, None)
    return d.pformat()


CTXS = {
    "top": lambda s: s,
    "quote": lambda s: "".join("> " + l + "\n" for l in s.split("\n")[:-1]),
    "list": lambda s: "- i\n\n" + "".join("  " + l + "\n" for l in s.split("\n")[:-1]),
}
COMBOS = [[], ["html_image"], ["html_admonition"], ["html_image", "html_admonition"]]

ELEMS = [
    "<div>x</div>", '<span class="admonition">y</span>', "a <b>c</b> d", "<!-- c -->", '<div class="admonition">\n<p>t</p>', '<div class="x">',
    "<?php x ?>", "<p>x</p>", "<table><tr><td>*a*</td></tr></table>", '<div class="admonition"', "<img", "text before <i>x</i>", "<b>bold</b> text after",
    '<video src="a.png"></video>', "<IMG2 src=a>", "x <style> y", "x <script>alert(1) y", "x <textarea y", "x <b", "<div class='admonitions'>\n<p>q</p>\n</div>", "&amp; <br> &#38;",
    "<!---->", "<!-- -->\n<?>", "<?x ?>",  # blank comments / processing instructions are content too: a block holding one is not 'entirely convertible'
    # an end tag that closes an ancestor while an inner element is still open: what follows is a top-level sibling again
    '<div class="admonition">\n<p>a <b>x</p>\n</div>\n<span>tail</span>', '<div class="admonition">\n<ul><li>a</ul>\n</div>\n<p>after</p>', "<p>a <b>x</p>\n<img src=\"a.png\">",
]
CONV = ['<img src="a.png">', '<img src="a.png" alt="A">', '<div class="admonition note">\n<p class="title">T</p>\n<p>body</p>\n</div>']


class PassSystem(System):
    name = "passthrough"

    def __init__(self, tier):
        super().__init__(tier)
        self.description = (f"{len(ELEMS)} non-convertible and {len(CONV)} convertible top-level fragments, alone and in ordered pairs, in 3 contexts, "
                            "under the 4 on/off combinations of html_image / html_admonition")

    def bounds(self):
        return {"elements": 2, "pool": len(ELEMS) + len(CONV)}

    def alphabet(self):
        return ELEMS + CONV

    def rule(self):
        return "one case = (fragment sequence, context): rendered under the 4 combinations; non-trivial = contains a non-convertible fragment"

    def cases(self):
        pool = ELEMS + CONV
        for i in range(len(pool)):
            for c in CTXS:
                yield [[i], c]
        for i, j in itertools.product(range(len(pool)), repeat=2):
            if i < len(ELEMS) or j < len(ELEMS):
                for c in (("top", "quote") if self.tier == "quick" else CTXS):
                    yield [[i, j], c]

    def run(self, case):
        idx, cname = case
        pool = ELEMS + CONV
        text = CTXS[cname]("\n".join(pool[i] for i in idx) + "\n")
        viol = []
        outs = {}
        d_by = {}
        for exts in COMBOS:
            cfg = MdParserConfig(enable_extensions=exts)
            toks = html_tokens(text, cfg)
            d, w = render(text, cfg)
            raws = [r.astext() for r in d.findall(nodes.raw)]
            fmts = {r.get("format") for r in d.findall(nodes.raw)}
            outs[tuple(exts)] = (toks, raws)
            d_by[tuple(exts)] = d
            if not exts:
                if toks != raws or (raws and fmts != {"html"}):
                    viol.append(violation("passthrough", {"clause": "passthrough", "exts": "none"},
                                          f"no HTML extension enabled: raw nodes {raws} differ from the html tokens {toks}", text=text))
        base = outs[()]
        for exts, (toks, raws) in outs.items():
            if not exts:
                continue
            # every token that is not convertible under `exts` must still be passed through verbatim
            if any(_convertible(t, exts) is None for t in toks):
                continue
            keep = [t for t in toks if not _convertible(t, exts)]
            conv = [t for t in toks if _convertible(t, exts)]
            # raw nodes produced INSIDE a converted element (inner HTML of an admonition body) are that element's business
            # convertible tokens must BE converted: count the image / admonition nodes they announce
            n_img = n_adm = 0
            for t in conv:
                tp = _Top()
                tp.feed(t)
                tp.close()
                n_img += sum(1 for x, _ in tp.top if x == "img")
                n_adm += sum(1 for x, _ in tp.top if x == "div")
            got_img = len(list(d_by[exts].findall(nodes.image)))
            got_adm = len(list(d_by[exts].findall(nodes.admonition)))
            if got_img < n_img or got_adm < n_adm:
                viol.append(violation("conversion", {"clause": "conversion", "exts": "+".join(exts)},
                                      f"with {list(exts)}: {n_img} <img> / {n_adm} div.admonition tokens are convertible but only {got_img} image / {got_adm} admonition nodes were produced",
                                      text=text))
            outer = [r for r in raws if r in keep]
            if outer != keep or (not conv and raws != keep):
                viol.append(violation("passthrough", {"clause": "passthrough", "exts": "+".join(exts)},
                                      f"with {list(exts)}: non-convertible html tokens {keep} but raw nodes {raws}", text=text))
        return Obs(digest=repr(outs), nontrivial=any(i < len(ELEMS) for i in idx), violations=viol[:3], transitions=4, validated=4)


class _Top(HTMLParser):
    """top-level items of an HTML fragment, by the standard library's parser (independent of myst's tokenizer)"""

    VOID = {"area", "base", "br", "col", "embed", "hr", "img", "input", "link", "meta", "param", "source", "track", "wbr"}

    def __init__(self):
        super().__init__(convert_charrefs=False)
        self.stack = []
        self.top = []

    @property
    def depth(self):
        return len(self.stack)

    def handle_starttag(self, t, a):
        if self.depth == 0:
            self.top.append((t, dict(a)))
        if t not in self.VOID:
            self.stack.append(t)

    def handle_startendtag(self, t, a):
        if self.depth == 0:
            self.top.append((t, dict(a)))

    def handle_endtag(self, t):
        # an end tag closes the nearest open element of that name together with everything opened inside it; a stray end tag closes nothing
        if t in self.stack:
            while self.stack.pop() != t:
                pass

    def handle_data(self, d):
        if self.depth == 0 and d.strip():
            self.top.append(("#text", {}))

    def handle_comment(self, d):
        if self.depth == 0:
            self.top.append(("#comment", {}))

    handle_decl = handle_pi = handle_comment

    def handle_entityref(self, n):
        if self.depth == 0:
            self.top.append(("#text", {}))

    handle_charref = handle_entityref


def _convertible(tok, exts):
    """model: converted iff every top-level item is an <img> (html_image) or a <div class="... admonition ..."> (html_admonition);
    None = unspecified (the fragment ends inside an unfinished tag, or nothing is at top level)"""
    if re.search(r"<[A-Za-z/][^>]*(<|$)", tok):
        return None  # a tag that is never closed by '>': broken HTML, either treatment is allowed
    p = _Top()
    p.feed(tok)
    if p.rawdata.strip():
        return None
    p.close()
    if not p.top:
        return None
    for t, a in p.top:
        if t == "img" and "html_image" in exts:
            continue
        if t == "div" and "html_admonition" in exts and "admonition" in (a.get("class") or "").split():
            continue
        return False
    return True


# ------------------------------------------------------------------------------------------------
VALS = ["x", "a b", "a  b", " a", "a ", "a\tb", "a: b", "#x", "a #b", "'q'", "|", ">", "- x", "[x]", "{x}", "*", "&amp;", "", "10px", "50%", "bad len", "a\\b", "a,b",
        "  sp  ", "é", "left", "a:b", "x: ", "!t", "@x", "%p", "`c`", "?q", "x'y", ": lead", "\\", "a\\", "~", "null", "1"]
IMG_ATTRS = ["alt", "class", "width", "height", "align", "name", "title", "id", "data-x"]
OPTION_KEYS = {"class", "alt", "height", "width", "align", "name"}


def yq(v):
    return json.dumps(v, ensure_ascii=False)


def survives(v):
    from myst_parser.parsers.options import TokenizeError, options_to_items

    try:
        return options_to_items(f"k: {v}")[0] == [("k", v)]
    except TokenizeError:
        return False


class ImageSystem(System):
    name = "image"

    def __init__(self, tier):
        super().__init__(tier)
        self.two = tier != "quick"
        self.description = (f"<img src=...> with one attribute from {IMG_ATTRS} x {len(VALS)} values (+ value-less attribute"
                            + (", + pairs of attributes" if self.two else "") + "), as HTML block, inline HTML and inside a quote, html_image on")

    def bounds(self):
        return {"attributes": 2 if self.two else 1, "values": len(VALS)}

    def alphabet(self):
        return {"attributes": IMG_ATTRS, "values": VALS}

    def rule(self):
        return "one case = (attribute dictionary, position); non-trivial = the value contains a character significant to the option syntax"

    def cases(self):
        for a in IMG_ATTRS:
            for vi in range(len(VALS)):
                for pos in ("block", "inline", "quote"):
                    yield [[[a, vi]], pos]
            for pos in ("block", "inline"):
                yield [[[a, None]], pos]
        for pos in ("block", "inline"):
            yield [[["src", None]], pos]
        if self.two:
            for a, b in itertools.combinations(["alt", "class", "width", "align", "name"], 2):
                for vi, vj in itertools.product(range(len(VALS)), repeat=2):
                    yield [[[a, vi], [b, vj]], "block"]

    def run(self, case):
        attrs, pos = case
        cfg = MdParserConfig(enable_extensions=["html_image"])
        src = "u.png"
        parts = []
        opts = []
        valueless = False
        special = False
        for a, vi in attrs:
            if a == "src":
                src = None
                valueless = True
                continue
            if vi is None:
                parts.append(a)
                valueless = True
                v = ""
            else:
                v = VALS[vi]
                parts.append(f'{a}="{v}"')
                special = special or not re.fullmatch(r"[\w%]+", v)
            if a in OPTION_KEYS:
                import html as _html

                dv = _html.unescape(v)  # the attribute VALUE: character references are part of HTML syntax, not of the value
                opts.append(f":{a}: {yq(dv)}" if dv != "" else f":{a}:")
        tag = "<img " + ("src" if src is None else f'src="{src}"') + (" " + " ".join(parts) if parts else "") + ">"
        dirv = "```{image} " + (src or "") + "\n" + "".join(o + "\n" for o in sorted(opts)) + "```\n"
        html = {"block": tag + "\n", "inline": f"text {tag} tail\n", "quote": "> " + tag + "\n"}[pos]
        viol = []

        def bad(clause, msg, **sig):
            sv = all(survives(VALS[vi]) for a, vi in attrs if vi is not None)
            viol.append(violation(clause, {"clause": clause, "attr": "+".join(a for a, _ in attrs), "survives_option_syntax": sv, "valueless": valueless, **sig},
                                  f"{tag} ({pos}): {msg}", text=html, directive=dirv))

        a, wa = render(html, cfg)
        b, wb = render(dirv, cfg)
        imgs_a = list(a.findall(nodes.image))
        imgs_b = list(b.findall(nodes.image))
        if valueless and src is None:
            # <img src> has no usable source: any report is fine, but it must be reported and not crash
            if not list(a.findall(nodes.system_message)) and not imgs_a:
                bad("equivalence", "value-less src: neither an image nor a report was produced")
            return Obs(digest=("valueless-src", len(imgs_a)), nontrivial=True, violations=viol)
        if len(imgs_b) != 1:
            # the directive itself refuses the value (bad length, bad align ...): the HTML form must refuse as well
            if imgs_a:
                bad("equivalence", f"the directive spelling is refused ({wb.strip()[:100]}) but the HTML form produced an image {pf(imgs_a[0]).strip()}")
            return Obs(digest=("refused", len(imgs_a)), nontrivial=special, violations=viol)
        if len(imgs_a) != 1:
            bad("equivalence", f"no image node from the HTML form (directive gives {pf(imgs_b[0]).strip()}); warnings: {wa.strip()[:160]}")
        elif pf(imgs_a[0]) != pf(imgs_b[0]):
            bad("equivalence", f"HTML form gives {pf(imgs_a[0]).strip()}, directive spelling gives {pf(imgs_b[0]).strip()}")
        if pos == "block" and len(imgs_a) == 1 and pf(a) != pf(b):
            if pf(imgs_a[0]) == pf(imgs_b[0]):
                bad("equivalence", "document trees differ around the image", kind="context")
        return Obs(digest=(pf(imgs_a[0]) if imgs_a else None), nontrivial=special, violations=viol[:2], transitions=2, validated=1)


TITLES = [("p-title", '<p class="title">T *t*</p>', "T *t*"), ("div-title", '<div class="title">T2</div>', "T2"),
          ("p-admonition-title", '<p class="admonition-title">T3</p>', "T3"), ("none", "", "Note"),
          ("p-title-tab", '<p class="title\tbig">T4</p>', "T4"), ("p-title-second-lf", '<p class="big\ntitle">T5</p>', "T5"),
          # classes that merely CONTAIN the word: the element is body text, the title is the default one
          ("p-title-elems", '<p class="title"><em>T8</em> <strong>w</strong></p>', "<em>T8</em> <strong>w</strong>"),
          ("p-subtitle", '<p class="subtitle">S6</p>', ("Note", "S6")), ("p-card-title", '<p class="card-title untitled">S7</p>', ("Note", "S7"))]
BODIES = [([], ""), (["body *em* `c`"], "body *em* `c`\n"), (["one", "two **s**"], "one\n\ntwo **s**\n"),
          (["- a\n- b"], "- a\n- b\n"), (["[l](u) $x$ {#id}"], "[l](u) $x$ {#id}\n"),
          # an attribute with an explicitly EMPTY value keeps it; a <p> written over several lines is still one paragraph of its own
          (["link <a href=\"\" title=\"x\">l</a> end"], "link <a href=\"\" title=\"x\">l</a> end\n"),
          (["one\nmore\n", "two **s**"], "one\nmore\n\ntwo **s**\n"),
          # explicitly closed EMPTY elements inside the body are written back as they were
          (["icon <i class=\"fa\"></i> tail", "<span id=\"x\"></span>"], "icon <i class=\"fa\"></i> tail\n\n<span id=\"x\"></span>\n")]
ADM_ATTRS = [("", []), (" note", []), ("\twarning", []), ("\nwarning  extra", []), (" warning extra", []), ("", [("name", "nm")]), (" tip", [("name", "n-2"), ("id", "i")]), ("", [("title", "tt")])]


class AdmonitionSystem(System):
    name = "admonition"
    description = (f"<div class=\"admonition ...\"> x {len(TITLES)} title forms x {len(BODIES)} bodies with inner Markdown x {len(ADM_ATTRS)} attribute sets x 3 contexts, "
                   "html_admonition on: same nodes as the {admonition} directive")

    def bounds(self):
        return {"titles": len(TITLES), "bodies": len(BODIES), "attrs": len(ADM_ATTRS)}

    def rule(self):
        return "one case = (title form, body, attributes, context); non-trivial = the body has inner Markdown"

    def cases(self):
        for t in range(len(TITLES)):
            for b in range(len(BODIES)):
                for a in range(len(ADM_ATTRS)):
                    for c in CTXS:
                        yield [t, b, a, c]

    def run(self, case):
        t, b, a, cname = case
        _, thtml, ttext = TITLES[t]
        paras, bodymd = BODIES[b]
        lead = None
        if isinstance(ttext, tuple):  # not a title: its text leads the body
            ttext, lead = ttext
            bodymd = lead + "\n\n" + bodymd
        cls, extra = ADM_ATTRS[a]
        attrs = f'class="admonition{cls}"' + "".join(f' {k}="{v}"' for k, v in extra)
        html = f"<div {attrs}>\n" + (thtml + "\n" if thtml else "") + "".join(f"<p>{p}</p>\n" for p in paras) + "</div>\n"
        opts = [f":class: {yq('admonition' + cls)}"] + [f":{k}: {yq(v)}" for k, v in extra if k in ("class", "name")]
        dirv = "``````{admonition} " + ttext + "\n" + "".join(o + "\n" for o in sorted(opts)) + "\n" + bodymd + "``````\n"
        cfg = MdParserConfig(enable_extensions=["html_admonition", "dollarmath", "attrs_inline"])
        A, wa = render(CTXS[cname](html), cfg)
        B, wb = render(CTXS[cname](dirv), cfg)
        viol = []
        if b == 0 and lead is None:
            # no body: the admonition directive itself refuses (content required); both spellings must report, nothing more is compared
            if not (list(A.findall(nodes.system_message)) and list(B.findall(nodes.system_message))):
                viol.append(violation("equivalence", {"clause": "equivalence-admonition", "title": TITLES[t][0], "body": b},
                                      "empty admonition: the two spellings do not both report the missing content", text=html, directive=dirv))
        elif pf(A) != pf(B):
            import difflib

            diff = "\n".join(difflib.unified_diff(pf(B).splitlines(), pf(A).splitlines(), "directive", "html", lineterm="", n=1))[:1200]
            viol.append(violation("equivalence", {"clause": "equivalence-admonition", "title": TITLES[t][0], "body": b},
                                  f"html admonition differs from the directive spelling ({cname})", text=html, directive=dirv, diff=diff))
        return Obs(digest=pf(A), nontrivial=b > 0, violations=viol, transitions=2, validated=1)


NAMES = ["iframe", "noembed", "noframes", "plaintext", "script", "style", "title", "textarea", "xmp"]


class _P(HTMLParser):
    def __init__(self):
        super().__init__(convert_charrefs=False)
        self.tags = []

    def handle_starttag(self, t, a):
        self.tags.append(("start", t))

    def handle_endtag(self, t):
        self.tags.append(("end", t))

    def handle_startendtag(self, t, a):
        self.tags.append(("start", t))


FOLLOW_TAG = [">", " >", "/>", "\n>", "\t>", " a=1>", "\f>", "\r\n>"]
FOLLOW_NOT = ["x>", "-x>", "=1>", "1>"]
TMPL = ["<div>\n{T}\n</div>\n", "a {T} b\n", "{T}\n", "<!-- unterminated {T}\n", "<p>\n{T}\n", "<div><b>{T}</b></div>\n", "> {T}\n", "<!-- {T} -->\n", "<span>{T}</span> and {T}\n"]


class GfmSystem(System):
    name = "gfm"
    chunk = 1
    description = (f"{len(NAMES)} disallowed names (+ 3 allowed names as control) x open/close x lower/upper/title case x {len(FOLLOW_TAG)} tag-forming and "
                   f"{len(FOLLOW_NOT)} non-tag followers x {len(TMPL)} positions (4 followers also with html_image and html_image + html_admonition enabled), gfm_only renderer")

    def bounds(self):
        return {"names": len(NAMES), "followers": len(FOLLOW_TAG) + len(FOLLOW_NOT), "positions": len(TMPL)}

    def rule(self):
        return "one case = (name, case, open/close): all followers x positions are rendered (transitions); non-trivial = a disallowed name"

    def cases(self):
        for name in NAMES + ["b", "div", "titles"]:
            for cs in ("lower", "upper", "title"):
                for close in ("", "/"):
                    yield [name, cs, close]

    def run(self, case):
        name, cs, close = case
        nm = getattr(name, cs)()
        viol = []
        n = 0
        dig = []
        # (with html_image / html_admonition enabled the block takes the conversion path, which has several exits of its own)
        base = MdParserConfig(gfm_only=True)
        few = [">", "\n>", " a=1>", "x>"]
        plan = ([(base, f) for f in FOLLOW_TAG + FOLLOW_NOT] + [(MdParserConfig(gfm_only=True, enable_extensions=["html_image"]), f) for f in few]
                + [(MdParserConfig(gfm_only=True, enable_extensions=["html_image", "html_admonition"]), f) for f in few])
        for cfg, follow in plan:
            for tmpl in TMPL:
                T = "<" + close + nm + follow
                text = tmpl.replace("{T}", T)
                n += 1
                d, w = render(text, cfg, gfm=True)
                raw = "".join(r.astext() for r in d.findall(nodes.raw))
                p = _P()
                p.feed(raw)
                p.close()
                hit = [t for t in p.tags if t[1].lower() in NAMES]
                dig.append(len(hit))
                toks = "".join(html_tokens(text, cfg, gfm=True))
                if hit and len(viol) < 2:
                    viol.append(violation("gfm-filter", {"clause": "gfm-filter", "name": name if name in NAMES else "control"},
                                          f"gfm mode: raw output {raw!r} still opens/closes {hit} (input {text!r})", text=text))
                if name not in NAMES or follow in FOLLOW_NOT:
                    # not a disallowed tag: the html tokens must pass unchanged
                    if raw != toks and len(viol) < 2:
                        viol.append(violation("gfm-filter", {"clause": "gfm-overfilter", "name": name if name in NAMES else "control"},
                                              f"gfm mode altered HTML that is not a disallowed tag: tokens {toks!r}, raw {raw!r}", text=text))
                elif toks and raw == toks and "<" + close + nm in raw and len(viol) < 2:
                    viol.append(violation("gfm-filter", {"clause": "gfm-filter", "name": name, "kind": "unchanged"},
                                          f"gfm mode: disallowed tag passed unchanged: {raw!r}", text=text))
        return Obs(digest=(name, cs, close, tuple(dig)), nontrivial=name in NAMES, violations=viol, transitions=n, validated=n)


IMG_FORMS = ['<img src="a.png">', '<img src="b.png" alt="B b">', '<img src="c.png" class="k l" width="10px">', '<img src="d.png" height="5em" align="left">', '<img src="e.png"/>',
             '<img src="f.png" alt="  padded   value  ">', '<img src="g.png" alt="tab\tand  two">']
NOSRC = ['<img alt="nosrc">', '<img src="" class="k">']
ADM_FORMS = ['<div class="admonition tip" name="an">\n<p class="title">AT</p>\n<p>abody *e*</p>\n</div>', '<div class="admonition">\n<p>plain body</p>\n</div>']


def img_directive(tag):
    import html as _html

    attrs = dict(re.findall(r'(\w[\w-]*)="([^"]*)"', tag))
    src = attrs.pop("src")
    opts = [f":{k}: {yq(_html.unescape(v))}" for k, v in sorted(attrs.items()) if k in OPTION_KEYS and v != ""]
    return "```{image} " + src + "\n" + "".join(o + "\n" for o in opts) + "```\n"


class MultiSystem(System):
    """several convertible elements in ONE html block: each must be converted as if it were alone"""

    name = "multi-element"

    def __init__(self, tier):
        super().__init__(tier)
        self.description = (f"every ordered pair (thorough: triple) of {len(IMG_FORMS)} <img> forms and {len(ADM_FORMS)} admonition forms inside one HTML block: "
                            "the image nodes must equal, one by one, those of the corresponding {image} directives")

    def bounds(self):
        return {"elements": 2 if self.tier == "quick" else 3, "forms": len(IMG_FORMS) + len(ADM_FORMS) + len(NOSRC)}

    def rule(self):
        return "one case = one block of 2-3 elements; non-trivial = an element without options follows one with options"

    def cases(self):
        forms = list(range(len(IMG_FORMS) + len(ADM_FORMS) + len(NOSRC)))
        for t in itertools.product(forms, repeat=2):
            yield list(t)
        if self.tier != "quick":
            for t in itertools.product(forms, repeat=3):
                yield list(t)

    def run(self, idx):
        cfg = MdParserConfig(enable_extensions=["html_image", "html_admonition"])
        forms = IMG_FORMS + ADM_FORMS + NOSRC  # an <img> without src is reported; its siblings are converted all the same
        text = "\n".join(forms[i] for i in idx) + "\n"
        doc, w = render(text, cfg)
        imgs = list(doc.findall(nodes.image))
        want = [i for i in idx if i < len(IMG_FORMS)]
        viol = []
        if len(imgs) != len(want):
            viol.append(violation("equivalence", {"clause": "multi-element", "kind": "count"},
                                  f"{len(imgs)} image nodes for {len(want)} <img> elements in one block: {text!r}", text=text))
        else:
            for j, (i, node) in enumerate(zip(want, imgs)):
                ref, _ = render(img_directive(IMG_FORMS[i]), cfg)
                rimg = list(ref.findall(nodes.image))
                if rimg and pf(rimg[0]) != pf(node):
                    viol.append(violation("equivalence", {"clause": "multi-element", "kind": "node"},
                                          f"element #{j} {IMG_FORMS[i]} in block {text!r}: {pf(node).strip()}, alone / as directive: {pf(rimg[0]).strip()}", text=text))
                    break
        adm = list(doc.findall(nodes.admonition))
        nadm = sum(1 for i in idx if len(IMG_FORMS) <= i < len(IMG_FORMS) + len(ADM_FORMS))
        if len(adm) != nadm:
            viol.append(violation("equivalence", {"clause": "multi-element", "kind": "admonition-count"},
                                  f"{len(adm)} admonition nodes for {nadm} div.admonition elements", text=text))
        nno = sum(1 for i in idx if i >= len(IMG_FORMS) + len(ADM_FORMS))
        rep = sum(1 for m in doc.findall(nodes.system_message) if "missing 'src'" in m.astext())
        if rep != nno:
            viol.append(violation("equivalence", {"clause": "multi-element", "kind": "nosrc-report"},
                                  f"{rep} \"missing 'src'\" reports for {nno} <img> elements without src", text=text))
        nt = any(a < len(IMG_FORMS) and IMG_FORMS[a] in ('<img src="a.png">', '<img src="e.png"/>') for a in idx[1:])
        return Obs(digest=tuple(pf(n) for n in imgs), nontrivial=nt, violations=viol[:2], transitions=1 + len(want), validated=len(want))


def systems(tier):
    return [PassSystem(tier), ImageSystem(tier), AdmonitionSystem(tier), GfmSystem(tier), MultiSystem(tier)]
