"""C15 — output depends only on document and config: no leakage across parses / workers.

Systems (DESIGN.md §4 C15):
  histories         every sequence of <= k parse calls (docutils front end) over an operation pool built to collide on all shared
                    state; each history runs in a freshly forked child of a pristine parent; every position must equal the
                    baseline of that operation executed FIRST in its own fresh child
  histories-sphinx  the same for documents read one after another by one in-process Sphinx application (shared env.myst_config)
  schedules         a generated Sphinx project built under EVERY schedule of the parallel read phase (ordered partitions of the
                    document list into chunks x interleavings of fork / merge events) through a deterministic replacement of
                    sphinx.builders.ParallelTasks: written HTML and warnings must equal the serial build
"""

from __future__ import annotations

import hashlib
import io
import itertools
import os
import pickle
import re
import shutil
import traceback
import zlib

from ..engine import Obs, System, violation

PROPERTY_ID = "C15"
LEVEL = "model_checking"
ASSUMPTIONS = [
    "a 'fresh state' is a freshly forked child of the harness parent, which has imported everything but parsed nothing",
    "roles created with the {role} directive live in docutils' own process-global registry and are kept out of the operation pool (docutils behaviour)",
    "schedule space of a parallel read = ordered partitions of the document list into chunks x interleavings of F1<F2<...<Fk and Mi after Fi; a chunk's worker is a real forked child run to completion at its fork point, its pickled environment merged at the chosen point",
    "uuid-labelled numbered amsmath is kept out of the serial-vs-parallel documents; '?v=' asset hashes and timings are masked in the HTML",
    "thread-level interleavings do not exist (Sphinx parallelism is process based); incremental rebuilds are not covered",
]

EXT = ["colon_fence", "deflist", "fieldlist", "strikethrough", "substitution", "attrs_inline", "attrs_block", "html_image", "html_admonition", "dollarmath"]

WIKI = {"myst_url_schemes": {"wiki": {"url": "https://w.example/{{path}}", "title": "wiki {{path}}", "classes": ["wk"]}, "http": None},
        "myst_enable_extensions": ["attrs_inline"]}

OPS = {
    "include": ("```{include} inc.md\n```\n", {}),
    "include-opts": ("```{include} inc.md\n:heading-offset: 1\n:relative-images:\n```\n", {}),
    "rst-include-opt": ("```{eval-rst}\n.. include:: inc.rst\n   :heading-offset: 1\n```\n", {}),
    "rst-include": ("```{eval-rst}\n.. include:: inc.rst\n```\n", {}),
    "rst-default-role": ("```{eval-rst}\n.. default-role:: math\n\n`x`\n```\n\n{math}`y`\n", {}),
    "rst-plain-role": ("```{eval-rst}\n`x`\n```\n", {}),
    "inv-many": ("".join(f"[](inv:#n{i}*)\n" for i in range(0, 262, 1)) + "\n[](inv:#abc) [](inv:#ABC) [](inv:#a*)\n", {}),
    # two patterns that differ only in a wildcard after an escaped star (autolinks: no Markdown backslash processing)
    "inv-star-literal": ("<inv:#st\\*>\n", {}),
    "inv-star-then-wild": ("<inv:#st\\**>\n", {}),
    "inv-few": ("[](inv:#abc) [](inv:#ABC) [](inv:#AB*) [](inv:#ab*)\n", {}),
    "subst": ("---\nmyst:\n  substitutions:\n    a: '{{b}}'\n    b: '{{a}}'\n    c: '{{ 1/0 }}'\n    d: ok\n---\n{{a}} {{c}} {{d}}\n", {}),
    # a cycle whose expression also names an innocent key (used BEFORE the cycle: a guard that outlives the parse shows in the next one)
    "subst-cycle-plus": ("---\nmyst:\n  substitutions:\n    loop: '{{ loop ~ d }}'\n    d: ok\n---\n{{d}} {{loop}}\n", {}),
    "subst2": ("---\nmyst:\n  substitutions:\n    a: A\n---\n{{a}} {{d}}\n", {}),
    "headings": ("# a\n\n## a\n\n[](#a-1)\n\n[^x]: y\n", {}),
    "headings2": ("# a\n\n[](#a) [](#a-1)\n\n[^x]: z\n\nw[^x]\n", {}),
    "fm-override": ("---\nmyst:\n  enable_extensions: [dollarmath]\n  heading_anchors: 0\n  html_meta: {k: v}\n  url_schemes: [x]\n---\n# a\n\n$x$ ~~s~~ [l](http://u)\n", {}),
    "plain-after": ("# a\n\n$x$ ~~s~~ <img src='a'> [l](http://u)\n\n[r]: http://d\n", {}),
    "refdef-use": ("[x][r] and [^x]\n", {}),
    "html-unclosed": ("a <style> b\n\n<div class=\"admonition\">\n<p>t</p>\n", {}),
    "html-img": ("<img src=\"a.png\" alt=\"A\">\n", {}),
    "cfg-anchors": ("# a\n\n## b\n\n[](#b)\n", {"myst_heading_anchors": 1}),
    "cfg-ext": ("Term\n: def\n\n~~s~~ $x$\n", {"myst_enable_extensions": ["deflist"]}),
    "inv-other-base": ("[](inv:#abc) [](inv:#ABC) [t](inv:#n1)\n", {"myst_inventories": "@OTHERBASE@"}),
    "cfg-dmath": ("$$a$$ (l) and 1$x$2 $ y $\n\n- [ ] t\n", {"myst_enable_extensions": ["dollarmath", "tasklist"], "myst_dmath_allow_labels": False, "myst_dmath_allow_digits": False,
                                                              "myst_dmath_allow_space": False, "myst_enable_checkboxes": True}),
    "plain-dmath": ("$$a$$ (l) and 1$x$2 $ y $\n\n- [ ] t\n", {"myst_enable_extensions": ["dollarmath", "tasklist"]}),
    "scheme-class-link": ("[x](wiki:X){.featured #i} and [z](wiki:Z){.other}\n", WIKI),
    "scheme-plain-link": ("[y](wiki:Y) <wiki:A> [h](http://e)\n", WIKI),
    "include-latin1": ("```{include} uni.md\n:encoding: latin-1\n```\n", {}),
    "include-utf8": ("```{include} uni.md\n```\n\n```{include} uni.md\n:literal:\n```\n", {}),
    "deprecated-ext": ("![a](b.png){width=10px}\n", {"myst_enable_extensions": ["attrs_image"]}),
    "html5-demo-anchors": ("# T\n\n## Sub\n\n[](#sub) ~~s~~\n", {"__html5_demo__": {"myst_heading_anchors": 2, "myst_enable_extensions": ["strikethrough"]}}),
    "html5-demo-plain": ("# T\n\n## Sub\n\n[](#sub) ~~s~~\n", {"__html5_demo__": {}}),
    "unknown-lexer": ("```nosuchlang\nx = 1\n```\n\n```{code-block} nosuchlang2\ny\n```\n", {}),
    "tokenizer-soup": ("```{note}\n:class: \"a\\\n  b\"\n:name: |\n  x\n\nbody\n```\n", {}),
}


def docutils_run(scratch, text, over):
    from docutils.core import publish_doctree

    from myst_parser.parsers.docutils_ import Parser

    ws = io.StringIO()
    st = {"warning_stream": ws, "report_level": 2, "halt_level": 5, "myst_enable_extensions": EXT,
          "myst_inventories": {"k": ["http://x", str(scratch / "o.inv")]}, "myst_heading_anchors": 2, "_disable_config": True}
    if "__html5_demo__" in over:
        from myst_parser.parsers.docutils_ import to_html5_demo

        try:
            return to_html5_demo(text, warning_stream=ws, report_level=2, halt_level=5, **over["__html5_demo__"]) + "\n" + ws.getvalue()
        except BaseException as exc:
            return "EXC " + repr(exc)
    st.update(over)
    if st.get("myst_inventories") == "@OTHERBASE@":
        st["myst_inventories"] = {"k": ["https://other.example/base/", str(scratch / "o.inv")]}
    try:
        d = publish_doctree(text, source_path=str(scratch / "x.md"), parser=Parser(), settings_overrides=st)
        return d.pformat() + "\n" + ws.getvalue()
    except BaseException as exc:
        return "EXC " + repr(exc)


def in_child(fn, *args):
    r, w = os.pipe()
    pid = os.fork()
    if pid == 0:
        os.close(r)
        try:
            out = fn(*args)
        except BaseException as exc:
            out = ("EXC", repr(exc), traceback.format_exc())
        with os.fdopen(w, "wb") as f:
            f.write(pickle.dumps(out))
        os._exit(0)
    os.close(w)
    with os.fdopen(r, "rb") as f:
        data = f.read()
    os.waitpid(pid, 0)
    return pickle.loads(data)


class HistorySystem(System):
    name = "histories"
    fork_per_case = True
    chunk = 1

    def __init__(self, tier):
        super().__init__(tier)
        self.k = 2 if tier == "quick" else 3
        self.ops = [o for o in OPS if tier != "quick" or o not in ("headings2", "cfg-anchors", "html-img", "plain-dmath", "subst2")]
        self.description = (f"all histories of <= {self.k} parse calls over {len(self.ops)} operations (include with and without MyST-only options, eval-rst include with and without them, "
                            "default-role, > 256 inventory wildcard patterns and case variants, cyclic / failing substitutions, front-matter overrides of set- and dict-valued options, "
                            "duplicate slugs, unclosed HTML, differing configurations), one freshly forked process per history")

    def prepare(self, ctx):
        self.dir = ctx.scratch / "c15"
        self.dir.mkdir(exist_ok=True)
        (self.dir / "inc.md").write_text("# Inc\n\npara [^f]\n\n[^f]: foot\n\n![i](img.png)\n")
        (self.dir / "inc.rst").write_text("para\n")
        (self.dir / "uni.md").write_bytes("caf\u00e9 \u00fcber\n".encode("utf8"))
        ents = "\n".join(f"n{i} py:function 1 p.html#$ -" for i in range(300)) + "\nabc std:label -1 i.html#abc Title\nABC std:label -1 i.html#ABC2 Other\nst* std:label -1 i.html#st1 Star\nst*rry std:label -1 i.html#st2 Starry\n"
        (self.dir / "o.inv").write_bytes(b"# Sphinx inventory version 2\n# Project: P\n# Version: 1\n# The remainder of this file is compressed using zlib.\n" + zlib.compress(ents.encode()))
        # baselines: each operation FIRST in its own fresh child of this (pristine) parent
        self.base = {op: in_child(docutils_run, self.dir, *OPS[op]) for op in self.ops}

    def bounds(self):
        return {"depth": self.k, "operations": len(self.ops)}

    def alphabet(self):
        return self.ops

    def rule(self):
        return "one case = one history (fresh process); transitions = parse calls; non-trivial = length >= 2"

    def cases(self):
        for k in range(1, self.k + 1):
            for h in itertools.product(self.ops, repeat=k):
                yield list(h)

    def run(self, hist):
        # (already inside a freshly forked child)
        viol = []
        outs = []
        for i, op in enumerate(hist):
            o = docutils_run(self.dir, *OPS[op])
            outs.append(hashlib.sha1(o.encode()).hexdigest()[:10])
            if o != self.base[op] and not viol:
                import difflib

                diff = "\n".join(difflib.unified_diff(self.base[op].splitlines(), o.splitlines(), "first-in-fresh-process", "after-history", lineterm="", n=1))[:1500]
                culprit = hist[i - 1] if i else None
                viol.append(violation("history", {"clause": "history", "affected": op, "after": culprit if len(hist) == 2 else "+".join(hist[:i])},
                                      f"operation {op!r} at position {i} of history {hist} differs from the same operation parsed first in a fresh process",
                                      history=hist, diff=diff))
        # the same configuration object / the same document twice
        return Obs(digest=tuple(outs), nontrivial=len(hist) >= 2, violations=viol, transitions=len(hist), validated=len(hist))


SX_DOCS = {
    "figure-md": ":::{figure-md}\n<img src=\"x.png\" alt=\"a\">\n\ncap\n:::\n",
    "raw-img": "text <img src=\"y.png\" alt=\"b\"> and\n\n<img src=\"z.png\">\n",
    "fm-figure-md": "---\nmyst:\n  heading_anchors: 2\n---\n# F\n\n:::{figure-md}\n<img src=\"x.png\" alt=\"a\">\n\ncap\n:::\n",
    "fm-ext": "---\nmyst:\n  enable_extensions: [deflist, html_image]\n  substitutions: {k: local}\n  heading_anchors: 3\n---\n# T\n\nTerm\n: def\n\n<img src=\"q.png\">\n\n{{k}}\n\n### deep\n",
    "plain": "# T\n\nTerm\n: def\n\n{{k}} $x$\n\n### deep\n\n[](#deep)\n",
    "include": "# I\n\n```{include} inc.txt\n:heading-offset: 1\n```\n",
    "rst-include-opt": "# R\n\n```{eval-rst}\n.. include:: inc.txt\n   :heading-offset: 1\n```\n",
    "links": "# L\n\n[](other.md) [t](other.md#sub) [](#lbl) <project:other.md>\n",
    "links-sub": "# L\n\n[](other.md) [t](other.md#sub) <project:other.md>\n",
    "fm-subdelims": "---\nmyst:\n  sub_delimiters: ['[', ']']\n---\n# S\n\n[[k]] and {{k}}\n",
    "fm-dmath": "---\nmyst:\n  dmath_allow_labels: false\n  dmath_allow_digits: false\n  dmath_double_inline: true\n---\n# M\n\n$$a$$ (l) 1$x$2 b $$c$$ d\n",
    "plain-math": "# M\n\n$$a$$ (l) 1$x$2 b $$c$$ d\n\n{{k}} [[k]]\n",
}


def sphinx_history(root, hist):
    from ..drivers import SphinxDriver

    if root.exists():
        shutil.rmtree(root)
    d = SphinxDriver(root, conf="myst_enable_extensions=['colon_fence','substitution','dollarmath']\nmyst_substitutions={'k':'GLOBAL'}\nmyst_heading_anchors=1\n"
                                "suppress_warnings=['image.not_readable','toc.not_included']\n",
                     files={"inc.txt": "## Inc head\n\nincluded para\n", "other.md": "(lbl)=\n# Other\n\n## Sub\n", "sub/other.md": "# Other in sub\n\n## Sub\n"})
    outs = []
    for i, name in enumerate(hist):
        # ('...-sub' documents live in a sub-directory: the same relative link text means another file there)
        doc, w = d.read(("sub/" if name.endswith("-sub") else "") + f"d{i}", SX_DOCS[name])
        pf = re.sub(r"d\d+\.md", "dN.md", doc.pformat()).replace(str(d.src), "<src>")
        outs.append(pf + "\n" + re.sub(r"d\d+\.md", "dN.md", w).replace(str(d.src), "<src>") + "\nCFG " + repr(sorted(d.app.env.myst_config.enable_extensions)))
    return outs


class SphinxHistorySystem(System):
    name = "histories-sphinx"
    fork_per_case = True
    chunk = 1

    def __init__(self, tier):
        super().__init__(tier)
        self.k = 2 if tier == "quick" else 3
        self.docs = list(SX_DOCS)
        self.description = (f"all sequences of <= {self.k} documents from {len(SX_DOCS)} (figure-md, raw <img>, front matter enabling extensions, plain, include, eval-rst include with a "
                            "MyST-only option, cross-document links) read one after another by ONE in-process Sphinx application; each position must equal that document read first by a fresh application")

    def prepare(self, ctx):
        self.root = ctx.scratch / "c15sx"
        self.root.mkdir(exist_ok=True)
        self.base = {name: in_child(sphinx_history, self.root / f"base-{name}", [name])[0] for name in self.docs}

    def bounds(self):
        return {"depth": self.k, "documents": len(self.docs)}

    def rule(self):
        return "one case = one read sequence (fresh process + fresh application); non-trivial = length >= 2"

    def cases(self):
        for k in range(1, self.k + 1):
            for h in itertools.product(self.docs, repeat=k):
                yield list(h)

    def run(self, hist):
        root = self.root / ("h-" + hashlib.sha1(repr(hist).encode()).hexdigest()[:12])
        try:
            outs = sphinx_history(root, hist)
        finally:
            shutil.rmtree(root, ignore_errors=True)
        viol = []
        for i, (name, o) in enumerate(zip(hist, outs)):
            if o != self.base[name] and not viol:
                import difflib

                diff = "\n".join(difflib.unified_diff(self.base[name].splitlines(), o.splitlines(), "read-first-by-a-fresh-app", "after-history", lineterm="", n=1))[:1500]
                viol.append(violation("history", {"clause": "history-sphinx", "affected": name, "after": hist[i - 1] if i else None},
                                      f"document {name!r} at position {i} of read sequence {hist} differs from the same document read first by a fresh application",
                                      history=hist, diff=diff))
        return Obs(digest=tuple(hashlib.sha1(o.encode()).hexdigest()[:10] for o in outs), nontrivial=len(hist) >= 2, violations=viol,
                   transitions=len(hist), validated=len(hist))


# ------------------------------------------------------------------------------------------------
# deterministic scheduler seam for Sphinx' parallel read

def schedules(k):
    def rec(seq, nf, merged):
        if len(seq) == 2 * k:
            yield list(seq)
            return
        if nf < k:
            yield from rec(seq + [("F", nf)], nf + 1, merged)
        for i in range(nf):
            if i not in merged:
                yield from rec(seq + [("M", i)], nf, merged | {i})

    yield from rec([], 0, frozenset())


def ordered_partitions(docs):
    for perm in itertools.permutations(docs):
        n = len(perm)
        for cuts in itertools.product([0, 1], repeat=n - 1):
            chunks = []
            cur = [perm[0]]
            for d, c in zip(perm[1:], cuts):
                if c:
                    chunks.append(cur)
                    cur = [d]
                else:
                    cur.append(d)
            chunks.append(cur)
            yield chunks


FORKS = []  # chunks actually read by forked workers in this process (observed, not assumed)


def make_det_tasks(sched):
    from sphinx.util import logging as slog

    class DetTasks:
        """Replacement for sphinx.util.parallel.ParallelTasks: a task is run to completion in a real forked child at its
        scheduled fork point; its result function (the environment merge) is called at its scheduled merge point."""

        uses = 0

        def __init__(self, nproc):
            self.tasks = []
            self.results = {}
            self.pos = 0
            self.sched = list(sched)
            # only the READ phase is scheduled; later users (the parallel write phase) run their tasks in-process, in order
            self.serial = DetTasks.uses > 0
            DetTasks.uses += 1

        def _run_child(self, func, arg):
            def body():
                collector = slog.LogCollector()
                with collector.collect():
                    ret = func(arg) if arg is not None else func()
                slog.convert_serializable(collector.logs)
                return (False, collector.logs, ret)

            res = in_child(body)
            if isinstance(res, tuple) and res and res[0] == "EXC":
                return (True, [], res)
            return res

        def _advance(self, upto_fork=None):
            while self.pos < len(self.sched):
                ev, i = self.sched[self.pos]
                if ev == "F":
                    if i >= len(self.tasks):
                        return
                    func, arg, rf = self.tasks[i]
                    self.results[i] = self._run_child(func, arg)
                    FORKS.append(tuple(arg) if isinstance(arg, (list, tuple)) else arg)
                    self.pos += 1
                    if upto_fork is not None and i == upto_fork:
                        return
                else:
                    if i not in self.results:
                        return
                    failed, logs, ret = self.results.pop(i)
                    if failed:
                        raise RuntimeError(ret)
                    for log in logs:
                        slog.getLogger(log.name).logger.handle(log)
                    self.tasks[i][2](self.tasks[i][1], ret)
                    self.pos += 1

        def add_task(self, task_func, arg=None, result_func=None):
            if self.serial:
                ret = task_func(arg) if arg is not None else task_func()
                if result_func:
                    result_func(arg, ret)
                return
            self.tasks.append((task_func, arg, result_func or (lambda a, r: None)))
            self._advance(upto_fork=len(self.tasks) - 1)

        def join(self):
            if self.serial:
                return
            self._advance()
            assert self.pos == len(self.sched), (self.pos, self.sched, len(self.tasks))

        def terminate(self):
            pass

    return DetTasks


PROJECT = {
    "index.md": "# Index\n\n```{toctree}\na\nb\nc\n```\n",
    "a.md": "---\nmyst:\n  sub_delimiters: ['[', ']']\n---\n# A\n\n## Sub\n\n[](b.md#sub) [](c.md) x[^f] [[k]] {{k}}\n\n[^f]: fa\n\n```{include} inc.txt\n```\n\n$$x$$ (eqa)\n",
    "b.md": "# B\n\n## Sub\n\n## Sub\n\n[](a.md#sub) [](#lblc) {{k}}\n\n```{eval-rst}\n.. include:: inc.txt\n   :heading-offset: 1\n```\n\n<img src=\"x.png\" alt=\"raw\">\n",
    "c.md": "(lblc)=\n# C\n\n[t](b.md#sub-1) {eq}`eqa`\n\n```{include} inc.txt\n```\n\n:::{figure-md} fig\n<img src=\"x.png\" alt=\"a\">\n\ncap\n:::\n",
    "d.md": "---\nmyst:\n  enable_extensions: [deflist, substitution, dollarmath]\n  sub_delimiters: ['[', ']']\n  dmath_allow_digits: false\n---\n# D\n\nTerm\n: def\n\n[](a.md#sub) [](c.md) [[k]] {{k}} 1$x$2\n",
    "inc.txt": "included para\n",
}


def write_project(src, ndocs):
    src.mkdir(parents=True, exist_ok=True)
    names = ["a", "b", "c", "d"][: ndocs - 1]
    (src / "conf.py").write_text("extensions=['myst_parser']\nmyst_heading_anchors=2\nmyst_enable_extensions=['dollarmath','colon_fence','substitution']\nmyst_substitutions={'k':'V'}\n"
                                 "suppress_warnings=['image.not_readable']\n")
    for n, t in PROJECT.items():
        if n.endswith(".md") and n[:-3] not in names + ["index"]:
            continue
        if n == "index.md":
            t = t.replace("a\nb\nc\n", "\n".join(names) + "\n")
        if "c" not in names:
            t = t.replace(" [](c.md)", "").replace(" [](#lblc)", "")
        (src / n).write_text(t)
    (src / "x.png").write_bytes(b"\x89PNG")
    return names + ["index"]


def sphinx_build(src, out, parallel, sched=None, chunks=None):
    import sphinx.builders as SB
    from sphinx.testing.util import SphinxTestApp

    if out.exists():
        shutil.rmtree(out)
    if chunks is not None:
        SB.make_chunks = lambda docnames, nproc, maxbatch=10: [list(c) for c in chunks]
        SB.ParallelTasks = make_det_tasks(sched)
    app = SphinxTestApp(srcdir=src, builddir=out, buildername="html", parallel=parallel)
    if chunks is not None:
        app.connect("env-before-read-docs", lambda app, env, docnames: docnames.__setitem__(slice(None), [d for c in chunks for d in c]))
    try:
        app.build()
        w = re.sub(r"\x1b\[[0-9;]*m", "", app._warning.getvalue()).replace(str(src), "<src>")
        files = {}
        for p in sorted((out / "html").glob("*.html")):
            body = re.sub(rb"\?v=[0-9a-f]+|[0-9]+\.[0-9]+s", b"", p.read_bytes())
            files[p.name] = body.decode("utf8", "replace")
    finally:
        app.cleanup()
    return files, sorted(w.splitlines())


class ScheduleSystem(System):
    name = "schedules"
    fork_per_case = True
    chunk = 1

    def __init__(self, tier):
        super().__init__(tier)
        self.nd = 3 if tier == "quick" else 4
        self.description = (f"project of {self.nd} documents (cross-document '#slug' links, shared include, eval-rst include with a MyST-only option, footnotes, labelled math, "
                            "substitutions, figure-md, raw <img>, front-matter extension override): every ordered partition of the document list into chunks x every interleaving of "
                            "fork and merge events of the parallel read; HTML files and sorted warnings must equal the serial build; + one unmodified '-j 4' build")

    def prepare(self, ctx):
        self.root = ctx.scratch / "c15par"
        self.src = self.root / "src"
        self.docs = write_project(self.src, self.nd)
        self.ref = in_child(sphinx_build, self.src, self.root / "ref", 1)
        if isinstance(self.ref, tuple) and self.ref and self.ref[0] == "EXC":
            raise RuntimeError("serial reference build failed: " + str(self.ref[1:])[:2000])

    def bounds(self):
        return {"documents": self.nd}

    def rule(self):
        return "one case = one (chunk partition, fork/merge interleaving) = one full html build in its own process; non-trivial = >= 2 chunks"

    def cases(self):
        yield ["real-j4"]
        for chunks in ordered_partitions(self.docs):
            for sched in schedules(len(chunks)):
                yield [chunks, [list(e) for e in sched]]

    def run(self, case):
        wid = os.getpid()
        out = self.root / f"b{wid}"
        try:
            if case[0] == "real-j4":
                got = sphinx_build(self.src, out, 4)
                chunks = None
            else:
                chunks, sched = case
                got = sphinx_build(self.src, out, 2, [tuple(e) for e in sched], chunks)
        finally:
            shutil.rmtree(out, ignore_errors=True)
        viol = []
        rf, rw = self.ref
        gf, gw = got
        if gw != rw or gf != rf:
            diffs = [n for n in sorted(set(rf) | set(gf)) if rf.get(n) != gf.get(n)]
            from collections import Counter

            extra = sorted((Counter(gw) - Counter(rw)).elements())
            lost = sorted((Counter(rw) - Counter(gw)).elements())
            viol.append(violation("parallel", {"clause": "parallel", "files": "+".join(diffs)[:60], "warning": (extra or lost or [""])[0].split(": ", 2)[-1][:80]},
                                  f"build under schedule {case} differs from the serial build: files {diffs}; extra warnings {extra}; lost warnings {lost}",
                                  schedule=case))
        if chunks is not None and [list(f) for f in FORKS] != [list(c) for c in chunks]:
            viol.append(violation("harness-conformance", {"clause": "harness-conformance"},
                                  f"the scheduler seam forked workers for {FORKS}, the schedule asked for {chunks}", schedule=case))
        return Obs(digest=(hashlib.sha1(repr(sorted(gf.items())).encode()).hexdigest()[:10], tuple(gw), tuple(FORKS)),
                   nontrivial=chunks is None or len(chunks) >= 2, violations=viol, stats={"worker_forks": len(FORKS)})


REUSE_DOCS = {
    "headings": "# Usage\n\n## Usage\n\n[](#usage-1)\n",
    "headings-again": "# Usage\n\n[](#usage) [](#usage-1)\n",
    "footnotes": "a[^x] b[^y]\n\n[^y]: Y\n\n[^x]: X\n",
    "refdef": "[r]: http://d\n\n[x][r]\n",
    "refdef-use": "[x][r] and c[^x]\n",
    "fm": "---\nmyst:\n  heading_anchors: 0\n  enable_extensions: [dollarmath]\nsubstitutions:\n  k: v\n---\n# Usage\n\n$x$ {{k}}\n",
    "plain": "# Other\n\n$x$ {{k}} ~~s~~\n",
    "include": "```{include} inc.md\n:heading-offset: 1\n```\n\n# After\n",
}


class ParserReuseSystem(System):
    """ONE parser object (create_md_parser) renders several documents one after the other: each must come out as from a fresh parser"""

    name = "parser-reuse"
    fork_per_case = True
    chunk = 1

    def __init__(self, tier):
        super().__init__(tier)
        self.k = 2 if tier == "quick" else 3
        self.description = (f"every sequence of <= {self.k} of {len(REUSE_DOCS)} documents rendered by one markdown-it parser object with its DocutilsRenderer "
                            "(heading slugs, footnotes, reference definitions, front matter, include): compared with a fresh parser object per document")

    def prepare(self, ctx):
        self.dir = ctx.scratch / "c15reuse"
        self.dir.mkdir(exist_ok=True)
        (self.dir / "inc.md").write_text("# Inc\n\n## Usage\n\npara [^f]\n\n[^f]: foot\n")

    def bounds(self):
        return {"depth": self.k, "documents": len(REUSE_DOCS)}

    def rule(self):
        return "one case = one sequence (fresh process); transitions = render calls; non-trivial = length >= 2"

    def cases(self):
        for k in range(1, self.k + 1):
            for h in itertools.product(list(REUSE_DOCS), repeat=k):
                yield list(h)

    def render_with(self, md, name):
        from docutils.utils import new_document

        from myst_parser.parsers.docutils_ import Parser
        from docutils.frontend import get_default_settings

        st = get_default_settings(Parser)
        ws = io.StringIO()
        st.warning_stream, st.report_level, st.halt_level, st.file_insertion_enabled = ws, 2, 5, True
        doc = new_document(str(self.dir / "x.md"), st)
        md.options["document"] = doc
        try:
            md.render(REUSE_DOCS[name])
        except BaseException as exc:
            return "EXC " + repr(exc)
        slugs = sorted(getattr(doc, "myst_slugs", {}))
        return doc.pformat() + "\n" + ws.getvalue() + "\nslugs=" + repr(slugs)

    def make(self):
        from myst_parser.config.main import MdParserConfig
        from myst_parser.mdit_to_docutils.base import DocutilsRenderer
        from myst_parser.parsers.mdit import create_md_parser

        return create_md_parser(MdParserConfig(heading_anchors=2, enable_extensions=["substitution", "strikethrough"], substitutions={"k": "global"}), DocutilsRenderer)

    def run(self, hist):
        md = self.make()
        viol, dig = [], []
        for pos, name in enumerate(hist):
            got = self.render_with(md, name)
            fresh = self.render_with(self.make(), name)
            dig.append(hash(got) % 100000)
            if got != fresh:
                import difflib

                diff = "\n".join(difflib.unified_diff(fresh.splitlines(), got.splitlines(), "fresh parser", "reused parser", lineterm="", n=1))[:1500]
                viol.append(violation("history", {"clause": "parser-reuse", "affected": name, "after": hist[pos - 1] if pos else None},
                                      f"document {name!r} rendered at position {pos} of {hist} by a reused parser object differs from a fresh parser object", history=hist, diff=diff))
                break
        return Obs(digest=(tuple(hist), tuple(dig)), nontrivial=len(hist) >= 2, violations=viol, transitions=len(hist), validated=len(hist))


def systems(tier):
    return [HistorySystem(tier), ParserReuseSystem(tier), SphinxHistorySystem(tier), ScheduleSystem(tier)]
