"""C06 — nested parsing is transparent: directive bodies, fences, include, substitution.

Systems (DESIGN.md §4 C06):
  transparency  body sequences X (<= k blocks over 21 non-heading symbols) x wrappers W (backtick / colon fences of several
                lengths, option blocks of both styles, nesting 2-4 deep, include with/without front matter, block substitution):
                children of the wrapper's node == top-level children of render(X)
  definitions   a footnote / link-reference / target definition inside W must stay usable from text after W (top level and
                inside another directive), exactly as when written in place
"""

from __future__ import annotations

import io
import itertools
from collections import Counter

from docutils import nodes
from docutils.frontend import get_default_settings
from docutils.utils import new_document

from ..drivers import docutils_doctree
from ..engine import Obs, System, violation

PROPERTY_ID = "C06"
LEVEL = "model_checking"
ASSUMPTIONS = [
    "metamorphic oracle: render(W(X)) restricted to the wrapper's node must equal render(X) (pformat with line/source masked)",
    "system_message nodes are compared as a multiset over the whole document, not by position (document-level warnings are attached at the end of the render)",
    "bodies that would be read as an option block (leading ':' or '---') are not placed first in a directive body; the wrapper's fence is longer than any fence in X",
    "substitution values are supplied through the myst_substitutions setting; Jinja-significant text is not generated",
    "headings are excluded from X (C05 owns them)",
]

from myst_parser.parsers.docutils_ import Parser  # noqa: E402

EXT = ["colon_fence", "deflist", "fieldlist", "strikethrough", "substitution", "dollarmath", "attrs_block"]
_SET = None


def render(text, src, subs=None):
    global _SET
    if _SET is None:
        _SET = get_default_settings(Parser)
    ws = io.StringIO()
    s = _SET.copy()
    s.halt_level = 5
    s.report_level = 2
    s.warning_stream = ws
    s.myst_enable_extensions = EXT
    s.file_insertion_enabled = True
    if subs:
        s.myst_substitutions = subs
    doc = new_document(src, s)
    Parser().parse(text, doc)
    return doc, ws.getvalue()


def pf(children):
    out = []
    msgs = Counter()
    for c in children:
        c = c.deepcopy()
        for x in list(c.findall()):
            if isinstance(x, nodes.system_message):
                msgs["".join(ch.astext() for ch in x.children)] += 1
                if x.parent is not None:
                    x.parent.remove(x)
                continue
            if isinstance(x, nodes.Element):
                for k in ("line", "source"):
                    x.attributes.pop(k, None)
        if isinstance(c, nodes.system_message):
            continue
        out.append(c.pformat())
    return "".join(out), msgs


X = [
    "para *e* [l](http://u)\n", "- a\n- b\n", "1. a\n2. b\n", "> q\n", "```py\ncode\n```\n", "    ind\n", "|a|b|\n|-|-|\n|1|2|\n", "***\n", "<div>h</div>\n",
    "$$m$$\n", "(t)=\npara t\n", "x[^f]\n\n[^f]: foot\n", "[r]: http://u\n\n[a][r]\n", "```{tip}\ninner\n```\n", "{abbr}`x (y)`\n", "% c\n", "+++\n",
    "Term\n: def\n", ":f: v\n", "{nosuchrole}`x`\n", "```{nodir}\n```\n", ":::{tip}\ncolon inner\n:::\n", "- [ ] task\n\n  para in item\n",
    "line one  \nline two\n", "```\ncode with trailing blanks  \n\n```\n", "    indented code  \n", "> quoted  \n> second\n",
    "lead\n\n---\n\ntail\n", "esc \\*x\\* \\[t\\](u) &amp;lt; end\n", "```{topic} Topic title\ntopic body\n```\n", "```{sidebar} Side title\nside body\n```\n", "\ttab indented code\n", "```\na\tb\n```\n", "- li\n\n\ttab continuation\n", "para with\ttab\n",
    # a definition in this body, used one directive level further down (the document outside has no definition of its own)
    "[r]: http://u\n\n```{tip}\ndeeper [a][r] use\n```\n", "x[^f]\n\n:::{tip}\ndeeper y[^f] use\n:::\n\n[^f]: foot\n",
]


def all_msgs(doc):
    c = Counter()
    for x in doc.findall(nodes.system_message):
        c["".join(ch.astext() for ch in x.children)] += 1
    return c


class Wrappers:
    def __init__(self, wdir, tag):
        self.dir = wdir
        self.tag = tag

    def make(self, x):
        """yield (name, text, selector, substitutions, needs_nonoption_first)"""
        d = self.dir
        yield "note```", "````{note}\n" + x + "````\n", lambda doc: doc[0].children, None, True
        yield "note``````", "``````{note}\n" + x + "``````\n", lambda doc: doc[0].children, None, True
        yield "note:::", "::::{note}\n" + x + "::::\n", lambda doc: doc[0].children, None, True
        yield "note::::::", "::::::{note}\n" + x + "::::::\n", lambda doc: doc[0].children, None, True
        # (CommonMark trims the info string: trailing blanks of the first line cannot be a hard break there)
        if x[:1].isalnum() and not any(l.startswith((":", "---")) for l in x.split("\n")[1:]) and x.split("\n")[0] == x.split("\n")[0].rstrip():
            # the body starts ON the fence line (argument-less directive): same nodes, for both fence kinds
            yield "note-firstline```", "````{note} " + x + "````\n", lambda doc: doc[0].children, None, False
            yield "note-firstline:::", "::::{note} " + x + "::::\n", lambda doc: doc[0].children, None, False
        # a substitution whose value uses ANOTHER substitution twice (judged against using that one twice directly)
        yield "subst-twice", "{{k}}\n", lambda doc: doc.children, {"k": "{{j}}\n\n{{j}}\n", "j": x}, False
        yield "epigraph", "````{epigraph}\n" + x + "````\n", lambda doc: doc[0].children, None, True
        yield "pull-quote:::", "::::{pull-quote}\n\n" + x + "::::\n", lambda doc: doc[0].children, None, False
        yield "adm-opts", "````{admonition} T\n:class: c\n\n" + x + "````\n", lambda doc: doc[0].children[1:], None, False
        yield "adm-opts-colon", "::::{admonition} T\n:class: c\n\n" + x + "::::\n", lambda doc: doc[0].children[1:], None, False
        yield "adm-yaml", "````{admonition} T\n---\nclass: c\n---\n" + x + "````\n", lambda doc: doc[0].children[1:], None, False
        yield "nest2", "``````{note}\n\n:::::{tip}\n" + x + ":::::\n``````\n", lambda doc: doc[0][0].children, None, True
        yield "colon-in-colon", ":::::{note}\n::::{tip}\n" + x + "::::\n:::::\n", lambda doc: doc[0][0].children, None, True
        yield "nest3", "```````{note}\n\n::::::{tip}\n`````{hint}\n" + x + "`````\n::::::\n```````\n", lambda doc: doc[0][0][0].children, None, True
        yield ("nest4", "````````{note}\n\n:::::::{tip}\n``````{hint}\n\n:::::{important}\n" + x + ":::::\n``````\n:::::::\n````````\n",
               lambda doc: doc[0][0][0][0].children, None, True)
        (d / f"inc{self.tag}.md").write_text(x)
        yield "include", f"```{{include}} inc{self.tag}.md\n```\n", lambda doc: doc.children, None, False
        (d / f"incfm{self.tag}.md").write_text("---\na: 1\n---\n" + x)
        yield "include-fm", f"```{{include}} incfm{self.tag}.md\n```\n", lambda doc: doc.children, None, False
        yield "include-in-note", f"````{{note}}\n```{{include}} inc{self.tag}.md\n```\n````\n", lambda doc: doc[0].children, None, False
        (d / f"incm{self.tag}.md").write_text("before CUT\n\n" + x + "\nCUT\n\nafter the second marker\n")
        yield ("include-markers", f"```{{include}} incm{self.tag}.md\n:start-after: CUT\n:end-before: CUT\n```\n", lambda doc: doc.children, None, False)
        # the same file a second time (inside a note, after the first include at top level): the second copy is judged
        yield ("include-again", f"```{{include}} inc{self.tag}.md\n```\n\n````{{note}}\n```{{include}} inc{self.tag}.md\n```\n````\n",
               lambda doc: doc[-1].children, None, False)
        yield "subst", "{{k}}\n", lambda doc: doc.children, {"k": x}, False


class TransparencySystem(System):
    name = "transparency"

    def __init__(self, tier):
        super().__init__(tier)
        self.k = 2 if tier == "quick" else 3
        self.xs = X if tier == "quick" else X
        self.description = (f"all sequences of <= {self.k} blocks over {len(X)} non-heading block symbols x 15 wrappers (fences ```/``````/:::/::::::, "
                            "option blocks, epigraph / pull-quote (MyST's own block-quote splitter), nesting 2/3/4 deep alternating fence kinds, include with/without front matter and inside a note, block substitution)")

    def prepare(self, ctx):
        self.dir = ctx.scratch / "c06"
        self.dir.mkdir(exist_ok=True)

    def worker_init(self, wid):
        self.wrap = Wrappers(self.dir, f"-{wid}")

    def bounds(self):
        return {"blocks": self.k, "symbols": len(X), "wrappers": 21}

    def alphabet(self):
        return X

    def rule(self):
        return "one case = one block sequence X: every wrapper is rendered (transitions); non-trivial = X has >= 2 blocks"

    def cases(self):
        for k in range(1, self.k + 1):
            for idx in itertools.product(range(len(X)), repeat=k):
                if k == 3 and self.tier != "quick" and len(set(idx)) == 1:
                    continue
                yield list(idx)

    def run(self, idx):
        wrap = getattr(self, "wrap", None) or Wrappers(self.dir, "-r")
        x = "\n".join(X[i] for i in idx)
        src = str(self.dir / "index.md")
        base, bw = render(x, src)
        b, bm = pf(base.children)
        bm_all = all_msgs(base)
        viol = []
        n = 0
        for name, text, sel, subs, first_must_be_plain in wrap.make(x):
            if first_must_be_plain and (x.startswith(":") or x.startswith("---")):
                continue
            if name in ("subst", "subst-twice") and ("{{" in x or "{%" in x or "    ind" in x or "\t" in x or "  \n" in x):
                continue
            n += 1
            try:
                d, w = render(text, src, subs)
                o, om = pf(sel(d))
                om_all = all_msgs(d)
                if name == "subst-twice":
                    ref, _ = render("{{j}}\n\n{{j}}\n", src, {"j": x})  # the inner substitution used twice directly
                    rb, _ = pf(ref.children)
                    o, _ = pf(d.children)
                    if o != rb or om_all != all_msgs(ref):
                        import difflib

                        diff = "\n".join(difflib.unified_diff(rb.splitlines(), o.splitlines(), "written-out", "substituted", lineterm="", n=1))[:1200]
                        viol.append(violation("transparency", {"clause": "transparency", "wrapper": name, "kind": "nodes"},
                                              "a substitution whose value uses another substitution twice differs from using that one twice directly", text=text, body=x, diff=diff))
                    continue
                if name == "include-again":
                    # duplicated names / footnotes interact between the two copies: the reference is the same text written out twice
                    ref, _ = render(x + "\n\n````{note}\n\n" + x + "````\n", src)  # (blank line: the body must not be read as an option block)
                    rb, _ = pf(ref.children)
                    o, _ = pf(d.children)
                    if o != rb or om_all != all_msgs(ref):
                        import difflib

                        diff = "\n".join(difflib.unified_diff(rb.splitlines(), o.splitlines(), "written-out", "included", lineterm="", n=1))[:1200]
                        viol.append(violation("transparency", {"clause": "transparency", "wrapper": name, "kind": "nodes"},
                                              "including one file twice (top level, then inside a note) differs from writing its text out twice", text=text, body=x, diff=diff))
                    continue
            except Exception as exc:
                viol.append(violation("transparency", {"clause": "transparency", "wrapper": name, "kind": "exception"},
                                      f"wrapper {name}: {type(exc).__name__}: {exc}", text=text, body=x))
                continue
            if o != b:
                import difflib

                diff = "\n".join(difflib.unified_diff(b.splitlines(), o.splitlines(), "top-level", "wrapped", lineterm="", n=1))[:1200]
                viol.append(violation("transparency", {"clause": "transparency", "wrapper": name, "kind": "nodes"},
                                      f"wrapper {name}: nodes differ from the same Markdown at top level", text=text, body=x, diff=diff))
            elif om_all != bm_all:
                viol.append(violation("transparency", {"clause": "transparency", "wrapper": name, "kind": "messages"},
                                      f"wrapper {name}: system messages differ: wrapped {dict(om_all)}, top level {dict(bm_all)}", text=text, body=x))
        return Obs(digest=b, nontrivial=len(idx) >= 2, violations=viol[:4], transitions=n + 1, validated=n)


DEFS = {
    "footnote": ("[^f]: foot *note*\n", "use x[^f] here\n"),
    "refdef": ("[r]: http://u 'T'\n", "use [a][r] and [r] here\n"),
    "target": ("(t)=\npara t\n", "use [txt](#t) here\n"),
    "attr-target": ("{#at}\npara at\n", "use [txt](#at) here\n"),
    "abbr-sub": ("", ""),
}
# the statement promises usability from the rest of the document for include and substitution only
DEF_WRAPS = ["include", "include-fm", "include-in-note", "subst"]
USE_CTX = {"top": lambda s: s, "tip": lambda s: "````{tip}\n" + s + "````\n", "quote": lambda s: "> " + s, "list": lambda s: "- " + s}


class DefinitionSystem(System):
    name = "definitions"
    chunk = 4

    def __init__(self, tier):
        super().__init__(tier)
        self.description = ("footnote / link-reference / (target)= / {#id} definitions inside an included file (3 forms) or a substitution value, used after the wrapper at top level, "
                            "inside another directive, a quote and a list item (and before the wrapper): the use must resolve exactly as with the definition in place")

    def prepare(self, ctx):
        self.dir = ctx.scratch / "c06d"
        self.dir.mkdir(exist_ok=True)

    def worker_init(self, wid):
        self.wrap = Wrappers(self.dir, f"-{wid}")

    def bounds(self):
        return {"definitions": 4, "wrappers": len(DEF_WRAPS), "use_contexts": len(USE_CTX)}

    def rule(self):
        return "one case = (definition kind, wrapper, use context, before/after); non-trivial = always"

    def cases(self):
        for dk in ("footnote", "refdef", "target", "attr-target"):
            for w in DEF_WRAPS:
                for uc in USE_CTX:
                    for order in ("after", "before", "both"):
                        for filler in ("", "filler para\n"):
                            yield [dk, w, uc, order, filler]

    def run(self, case):
        dk, wname, uc, order, filler = case
        wrap = getattr(self, "wrap", None) or Wrappers(self.dir, "-r")
        dtext, use = DEFS[dk]
        body = filler + ("\n" if filler else "") + dtext
        entry = [w for w in wrap.make(body) if w[0] == wname][0]
        _, wtext, _, subs, _ = entry
        use_md = USE_CTX[uc](use)
        if order == "after":
            wrapped = "PRE\n\n" + wtext + "\n" + use_md + "\nPOST\n"
            inplace = "PRE\n\n" + body + "\n" + use_md + "\nPOST\n"
        elif order == "both":
            # the SAME use text before and after the definition: only the later one is judged (the earlier one is the 'before' case)
            wrapped = "PRE\n\n" + use_md + "\n" + wtext + "\n" + use_md + "\nPOST\n"
            inplace = "PRE\n\n" + use_md + "\n" + body + "\n" + use_md + "\nPOST\n"
        else:
            wrapped = "PRE\n\n" + use_md + "\n" + wtext + "\nPOST\n"
            inplace = "PRE\n\n" + use_md + "\n" + body + "\nPOST\n"
        src = str(self.dir / "index.md")
        st = {"myst_enable_extensions": EXT, "myst_heading_anchors": 2}
        if subs:
            st["myst_substitutions"] = subs
        A, wa = docutils_doctree(wrapped, st, source_path=src)
        B, wb = docutils_doctree(inplace, st, source_path=src)

        def use_para(doc):
            for p in doc.findall(nodes.paragraph):
                if p.astext().startswith("use "):
                    q = p.deepcopy()
                    for x in q.findall():
                        if isinstance(x, nodes.Element):
                            for k in ("line", "source"):
                                x.attributes.pop(k, None)
                    return q.pformat()
            return None

        ua, ub = use_para(A), use_para(B)
        viol = []
        # resolved-ness summary, robust against id renumbering
        def summary(doc):
            out = []
            uses = [p for p in doc.findall(nodes.paragraph) if p.astext().startswith("use ")]
            for p in (uses[-1:] if order == "both" else uses):
                if True:
                    for n in p.findall(lambda n: isinstance(n, (nodes.reference, nodes.footnote_reference, nodes.problematic))):
                        tgt = None
                        if n.get("refid"):
                            t = doc.ids.get(n["refid"])
                            tgt = t.astext()[:20] if t is not None else "DANGLING"
                        out.append((n.tagname, n.get("refuri"), tgt, n.astext()))
            return out

        sa, sb = summary(A), summary(B)
        if sa != sb or (ua is None) != (ub is None):
            # the use is tokenised before the wrapper's content is rendered unless it sits in a later directive body
            early = not (uc == "tip" and order in ("after", "both"))
            kind = "include" if wname.startswith("include") else "substitution"
            viol.append(violation("definitions", {"clause": "definitions", "definition": dk, "wrapper": kind, "use_tokenised_before_wrapper": early},
                                  f"{dk} defined inside {wname}, used {order} it ({uc}): use resolves as {sa}, in place as {sb}",
                                  wrapped=wrapped, inplace=inplace, warnings=wa))
        ka = sorted(l.split(") ", 1)[-1] for l in wa.splitlines() if "(" in l)
        kb = sorted(l.split(") ", 1)[-1] for l in wb.splitlines() if "(" in l)
        if ka != kb and not viol:
            viol.append(violation("definitions", {"clause": "definitions-warnings", "definition": dk, "wrapper": wname},
                                  f"{dk} inside {wname}: warnings {ka}, in place {kb}", wrapped=wrapped, inplace=inplace))
        return Obs(digest=(tuple(sa), tuple(ka)), violations=viol, transitions=2, validated=1)


def systems(tier):
    return [TransparencySystem(tier), DefinitionSystem(tier)]
