"""C01 — parsing is total: any text, any valid config, never an uncaught exception.

Systems (DESIGN.md §4 C01), every one exhaustive for its bound; oracle = a document is returned, nothing escapes:
  soup            all strings of length <= n over the 26 MyST-significant characters (docutils front end)
  fragments       all sequences of <= k source fragments, one or more per error-handling mechanism (+ wrapped in quote / note)
  fragments-sphinx  the same pool + Sphinx-only fragments through the in-process Sphinx front end (read + post-transforms)
  configurations  every fragment under extension subsets x parser modes x option toggles
  faults          {include, literal include, code include, inventory, link probe} x file-system answers, sequences of <= 2
"""

from __future__ import annotations

import itertools
import os
import traceback

from docutils import nodes

from ..drivers import docutils_doctree
from ..engine import Obs, System, violation

PROPERTY_ID = "C01"
LEVEL = "exploration"
ASSUMPTIONS = [
    "halt_level=5: a SEVERE system_message is a report, not an abort (docutils' default halt_level=4 is its own configured abort policy; Sphinx runs with 5)",
    "valid configurations only; the linkify extension and gfm_only need linkify-it-py, which is not importable, and are excluded as the property allows",
    "termination = 60 s deadline per document",
    "permission-denied is injected at the pathlib.Path.read_text / builtins.open seam by the harness (the sandbox runs as root)",
    "for unreadable include / inventory files, bad front matter, bad directive options and unknown roles/directives at least one report (system_message or warning line) is required as well",
]

EXT = ["amsmath", "attrs_inline", "attrs_block", "colon_fence", "deflist", "dollarmath", "fieldlist", "html_admonition", "html_image", "replacements", "smartquotes",
       "strikethrough", "substitution", "tasklist"]
ALLEXT = EXT + ["attrs_image"]
SUBS = {"a": "{{b}}", "b": "{{a}}", "c": "{{ 1/0 }}", "d": "{% if %}", "e": "# H\n\n```{note}\nx\n```", "n": 3, "f": "{{ n|length }}", "g": "{{ n + 'a' }}"}


def sig_of(exc):
    tb = traceback.extract_tb(exc.__traceback__)
    inner = [f for f in tb if "myst_parser" in f.filename]
    last = tb[-1] if tb else None
    where = (os.path.basename(last.filename) + ":" + last.name) if last else "?"
    return {"clause": "uncaught-exception", "exc": type(exc).__name__, "myst_function": inner[-1].name if inner else "?", "raised_in": where}


URL_SCHEMES = {"http": None, "https": None, "mailto": None, "wiki": {"url": "https://w/{{path}}#{{fragment}}", "title": "{{scheme}} {{netloc}} {{params}} {{query}}", "classes": ["w"]}}


def base_settings(scratch):
    return {
        "myst_enable_extensions": EXT, "myst_heading_anchors": 2, "myst_title_to_header": True,
        "myst_inventories": {"k": ["http://x", str(scratch / "bad.inv")], "ok": ["http://y", str(scratch / "ok.inv")], "z": ["http://z", str(scratch / "zbad.inv")],
                             "sp": ["http://bad host/with space", None]},
        "myst_substitutions": SUBS, "myst_fence_as_directive": ["mermaid", "note"], "myst_number_code_blocks": ["py"],
        "myst_url_schemes": URL_SCHEMES,
    }


def prepare_files(d):
    from ..models.invfile import make_v2

    (d / "adir").mkdir(parents=True, exist_ok=True)
    (d / "ok.md").write_text("# Inc\n\npara\n")
    (d / "bin.md").write_bytes(b"\xff\xfe\x00")
    (d / "bad.inv").write_text("junk")
    (d / "ok.inv").write_bytes(make_v2("P", "1", ["x std:label -1 a.html#$ -"]))
    # a valid version-2 header followed by a payload that is not a zlib stream
    (d / "zbad.inv").write_bytes(b"# Sphinx inventory version 2\n# Project: Z\n# Version: 1\n# The remainder of this file is compressed using zlib.\n" + b"this is not zlib data" * 3)
    (d / "self.md").write_text("before\n\n```{include} self.md\n```\n")
    (d / "self2.md").write_text("before\n\n```{include} adir/../self2.md\n```\n")
    (d / "adir" / "inc3.md").write_text("```{include} ../inc4.md\n```\n")
    (d / "inc4.md").write_text("```{include} adir/inc3.md\n```\n")
    (d / "m1.md").write_text("```{include} m2.md\n```\n")
    (d / "m2.md").write_text("```{include} m1.md\n```\n")
    (d / "fm.md").write_text("---\na: *x\n---\nbody\n")
    (d / "q.txt").write_text("q")


def run_docutils(text, settings, src):
    """-> (violations, digest, reported)"""
    try:
        doc, warn = docutils_doctree(text, settings, source_path=src)
    except RecursionError as exc:
        s = sig_of(exc)
        s["myst_function"], s["raised_in"] = "nested include", "recursion"
        return [violation("uncaught-exception", s, f"RecursionError while rendering {text[:80]!r}", text=text)], ("EXC", "RecursionError"), False
    except Exception as exc:
        s = sig_of(exc)
        return [violation("uncaught-exception", s, f"{type(exc).__name__}: {str(exc)[:200]} (front end: docutils)", text=text,
                          traceback="".join(traceback.format_exception(exc))[-2500:])], ("EXC", s["exc"], s["myst_function"]), False
    if not isinstance(doc, nodes.document):
        return [violation("no-document", {"clause": "no-document"}, "no document returned", text=text)], ("nodoc",), False
    nmsg = len(list(doc.findall(nodes.system_message)))
    reported = nmsg > 0 or bool(warn.strip())
    return [], ("ok", nmsg, warn.count("\n")), reported


SOUP = "a1 \n#*`[]()<>-:{}!|$\\~=^_+"


class SoupSystem(System):
    name = "soup"

    def __init__(self, tier):
        super().__init__(tier)
        self.n = 3 if tier == "quick" else 4
        self.description = f"all strings of length <= {self.n} over the {len(SOUP)} MyST-significant characters {SOUP!r}, all static extensions on, docutils front end"

    def prepare(self, ctx):
        self.dir = ctx.scratch / "c01"
        prepare_files(self.dir)
        self.settings = base_settings(self.dir)

    def bounds(self):
        return {"length": self.n, "alphabet": len(SOUP)}

    def alphabet(self):
        return list(SOUP)

    def rule(self):
        return "one case = one string; non-trivial = the document has any node besides one plain paragraph"

    def cases(self):
        for n in range(self.n + 1):
            for t in itertools.product(SOUP, repeat=n):
                yield "".join(t)

    def run(self, text):
        v, dig, rep = run_docutils(text, self.settings, str(self.dir / "x.md"))
        return Obs(digest=dig, nontrivial=dig[0] != "ok" or dig[1:] != (0, 0) or any(c in text for c in "#*`[<>-{$"), violations=v)


# fragment -> (text, must_report)
F = [
    ("---\na: 1\n---\n", False), ("---\na: *x\n---\n", True), ("---\n- l\n---\n", True), ("---\nmyst: 1\n---\n", True), ("---\n!!python/object:os.system x\n---\n", True),
    ("---\nmyst:\n  nofield: 1\n  enable_extensions: 3\n  url_schemes: [http]\n  heading_anchors: x\n---\n[l](http://x)\n", True),
    ("---\ntitle: T *e*\nauthor: A\ndate: 2020-01-01\nnested: {a: [1]}\nhtml_meta: {k: v, 'bad key=': '', 'p=q r': x}\nsubstitutions: {z: 1}\n---\n", False),
    ("---\n\n![i](v)\n", False), ("---\na: [\n---\n", True), ("---\n? [a, b]\n: c\n---\n", False), ("---\n1: x\ntitle: 5\n---\n", False), ("---\na: &x 1\nb: *x\n<<: {c: 1}\n---\n", False),
    ("```{note}\n:class: x\n:bogus: y\n\nbody\n```\n", True), ("```{note}\n---\nclass: [\n---\nbody\n```\n", True), ("```{note}\n:class: \"\\UFFFFFFFF\"\n```\n", True),
    ("```{image}\n```\n", True), ("```{image} a b c\n```\n", False), ("```{nodir} arg\n```\n", True), ("```{figure} a.png\n:width: 999zz\n\ncap\n```\n", True),
    ("```{code-block} py\n:emphasize-lines: 99\n:lineno-start: x\n\ncode\n```\n", True), ("```{table} T\n\n|a|\n|-|\n|b|\n```\n", False), ("```{list-table}\n\n- x\n```\n", True),
    ("```{csv-table}\n:file: nope.csv\n```\n", True), ("```{contents}\n```\n", False), ("```{role} r(emphasis)\n```\n", False),
    ("```{eval-rst}\n.. note::\n\n   `x`_ |s| [#]_\n\n.. include:: nope.rst\n```\n", True), ("```{include} nope.md\n```\n", True), ("```{include} adir\n```\n", True),
    ("```{include} bin.md\n```\n", True), ("```{include} ok.md\n:start-after: NOPE\n```\n", True), ("```{include} ok.md\n:literal:\n:number-lines: x\n```\n", True),
    ("```{include} ok.md\n:code: py\n:heading-offset: 2\n```\n", False), ("```{include}\n```\n", True), ("```{include} fm.md\n```\n", False),
    ("{norole}`x`\n", True), ("{raw}`x` {math}`x^2` {abbr}`a (b` {sub-ref}`q` {ref}`x` {doc}`y`\n", False), ("<img src>\n", False), ("<img src=\"a\" alt>\n", False),
    ("<img alt=\"x\">\n", False), ("<div class>\n", False), ("<div class=\"admonition\">\n<p class=\"title\">T\n", False), ("a <b x=\"1> c\n", False),
    ("<![foo x]>\n\n<div>\n<![foo x]>\n</div>\n", False), ("<div class=\"admonition\" name>\n<p>x</p>\n</div>\n", False),
    ("{{a}} {{c}} {{d}} {{nope}} {{ e }}\n", True), ("{{e}}\n", False), ("{{f}} {{g}}\n", True), ("---\n", False), ("> ---\n", False), ("- ---\n", False), ("***\n\n***\n", False),
    ("Term\n: d\n\n: d2\n", False), (": x\n", False), (":f: v\n:g:\n", False), ("[^a]: x\n\n[^a]: y\n\n[^a] [^b]\n", True), ("[r]: u\n\n[r]: v\n\n[x][r] [y][nope]\n", True),
    ("|a|b|\n|-|\n|1|2|3|\n", False), ("|a|\n|:-:|\n", False), ("$$x$$ (l)\n\n$$y$$ (l)\n\n$a$ \\begin{equation}a\\end{equation}\n", False), ("\\begin{align}a\\end{align}\n", False),
    ("[](inv:#x) <inv:k:*:*#y*> [t](inv:)\n", True), ("[a](x.md) <project:y.md#z> <path:q.txt> [](#nope) [b](#) [c]()\n", True),
    ("[" + "a" * 10 + "](" + "p" * 300 + ".md) [n](a%00b)\n", False), ("![a](b){w=1x h=2 .c #i} `c`{.d l=py} [s]{.x}\n", False), ("{#i .c k=v}\n# H\n\n{#i}\n# H\n", False),
    ("# H\n#### H4\n## H2\n", True), ("(t)=\n\n(t)=\n# H\n", False), ("- [ ] t\n- [x] u\n", False), ("+++ meta\n\n% c\n", False), ("~~s~~ \"q\" -- (c)\n", False),
    ("```mermaid\ng\n```\n\n```note\nn\n```\n\n```py\nc\n```\n", False), ("\\\n", False), ("a\\\nb  \nc\n", False), ("&nbsp; &#0; &#x110000; &bogus;\n", False),
    ("<http://x> <mailto:a@b> www.x.com\n", False), ("1. a\n   1. b\n      - c\n        > d\n", False), ("    code\n\n\tTab\n", False), ("# \n\n#\n", False), ("[a\n", False),
    ("```\n", False), ("::::\n", False), ("$$\n", False), ("{#i}\n# H\n\n{#i}\npara\n", False), ("[^a]: x\n\n(a)=\npara\n", False), ("```{note}\n:name: a\nx\n```\n\n[^a]: y\n", False),
    ("```{note}\n:class: |\u00b2\n tip\n```\n", False), ("```{note}\n:class: >\u2460+\n tip\n```\n", False), ("---\na: [2020-01-01]\nb: {c: !!binary aGk=}\nd: !!set {x, y}\n---\n", False),
    ("x[^\u00b2] y[^1] z[^a]\n\n[^\u00b2]: two\n\n[^1]: one\n\n[^a]: named\n", False), ("```{include} adir/../self2.md\n```\n", True), ("```{include} adir/inc3.md\n```\n", True),
    ("---\nmyst:\n  heading_slug_func: os.nope\n---\n# H\n", True), ("---\nmyst:\n  heading_slug_func: 'json.decoder.'\n  url_schemes: {ab: 0}\n---\n# H\n", True),
    ("```{note}\n:name: | # c\n```\n", False), ("```{note}\n---\nname: > # c", False), ("[a](inv://[x) <inv://[x> [b](inv:k:std:label#%zz) [c](http://[x)\n", False),
    ("```{line-block}\n\n   \nx\n```\n", False), ("```{line-block}\na\n  b\nc\n    d\n e\n```\n", False), ("---\n? !!binary aGVsbG8=\n: x\n2: y\n---\n", False),
    ("# H {norole}`x` [l](#nope) ![a](b){w=1x}\n\n## H {norole}`x`\n", True), ("<img src=\"a.png\" name=\"foo\">\n<img alt=\"x\">\n\n[link](#foo)\n", False),
    ("(dup)=\n\n{#dup}\n# Only title\n\ntext\n", True), ("{#t1}\n# Only title\n\n{#t1}\npara\n", True), ("<img src alt=\"v\"> <img src>\n\n<img src>\n", False),
    ("```{include} self.md\n```\n", True), ("```{include} m1.md\n```\n", True), ("```{include} " + "n" * 300 + ".md\n```\n", True), ("```{include} a\x00b.md\n```\n", True),
]


def wrap_quote(s):
    return "".join("> " + l + "\n" for l in s.split("\n")[:-1])


def wrap_note(s):
    return "`````{note}\n\n" + s + "`````\n"


class FragmentSystem(System):
    name = "fragments"

    def __init__(self, tier):
        super().__init__(tier)
        self.k = 2 if tier == "quick" else 3
        self.description = (f"all sequences of <= {self.k} fragments from an {len(F)}-fragment pool (front matter, directive options, unknown / failing directives and roles, "
                            "HTML, substitutions, transitions, duplicate definitions, ragged tables, math, attributes, includes with every faulty path, inv: links); "
                            "single fragments also inside a quote and a note; docutils front end")

    def prepare(self, ctx):
        self.dir = ctx.scratch / "c01"
        prepare_files(self.dir)
        self.settings = base_settings(self.dir)

    def bounds(self):
        return {"fragments": self.k, "pool": len(F)}

    def alphabet(self):
        return [f for f, _ in F]

    def rule(self):
        return "one case = one fragment sequence (+ wrapper); non-trivial = at least one report was produced"

    def cases(self):
        for i in range(len(F)):
            for w in ("top", "quote", "note"):
                yield [[i], w]
        for a, b in itertools.product(range(len(F)), repeat=2):
            yield [[a, b], "top"]
        if self.k >= 3:
            sub = list(range(0, len(F), 3))
            for t in itertools.product(sub, repeat=3):
                yield [list(t), "top"]

    def run(self, case):
        idx, w = case
        text = "\n".join(F[i][0] for i in idx)
        if w == "quote":
            text = wrap_quote(text)
        elif w == "note":
            text = wrap_note(text)
        v, dig, rep = run_docutils(text, self.settings, str(self.dir / "x.md"))
        if not v and w == "top" and len(idx) == 1 and F[idx[0]][1] and not rep:
            v.append(violation("silently-swallowed", {"clause": "silently-swallowed", "fragment": idx[0]},
                               f"a malformed / unresolvable construct produced neither a system_message nor a warning: {text[:120]!r}", text=text))
        return Obs(digest=dig, nontrivial=rep, violations=v)


SX_F = [
    "```{figure-md} fig\n<img src=\"a.png\">\n\ncap\n```\n", "```{figure-md}\nnot an image\n```\n", "```{toctree}\nnodoc\nindex\n```\n", "```{literalinclude} nope.py\n```\n",
    "```{only} html\n# H in only\n```\n", "```{glossary}\nterm\n  def\n```\n", "{py:func}`x` {any}`y` {download}`q.txt` {numref}`z` {eq}`l` {term}`t`\n",
    "```{py:function} f(x)\n:module: m\n\ndoc\n```\n", "```{math}\n:label: l\nx\n```\n\n```{math}\n:label: l\ny\n```\n", "{.glossary}\nTerm\n: d\n", "```{versionadded} 1.0\nx\n```\n",
    "```{code-block}\n:caption: *c*\n:name: n\n\nx\n```\n", "```{productionlist}\na: b\n```\n", "```{index} x\n```\n", "```{tabularcolumns} |l|\n```\n", "```{autosummary}\n```\n",
    "```{highlight} py\n```\n\n```\nx\n```\n", "[t](" + "d/" * 200 + "x.md)\n", "<project:nodoc.md> <project:#nolabel> [x](nodoc.md#a)\n", "[a](index.md) [b](./index.md#index) [c](/index.md)\n",
]


class SphinxFragmentSystem(System):
    name = "fragments-sphinx"
    jobs = 8

    def __init__(self, tier):
        super().__init__(tier)
        self.pool = [f for f, _ in F] + SX_F
        self.description = (f"every fragment of the pool + {len(SX_F)} Sphinx-only fragments alone, and every ordered pair over "
                            + ("the whole pool" if tier != "quick" else "every third fragment x the whole pool") + ", through the in-process Sphinx front end (read + post-transforms)")

    def prepare(self, ctx):
        self.root = ctx.scratch / "c01sx"
        self.root.mkdir(exist_ok=True)

    def worker_init(self, wid):
        from ..drivers import SphinxDriver

        conf = (f"myst_enable_extensions={EXT!r}\nmyst_heading_anchors=2\nmyst_title_to_header=True\nmyst_substitutions={SUBS!r}\n"
                "myst_fence_as_directive=['mermaid','note']\nextensions.append('sphinx.ext.intersphinx')\n")
        self.drv = SphinxDriver(self.root / f"w{wid}", conf=conf)
        prepare_files(self.drv.src)

    def bounds(self):
        return {"fragments": 2, "pool": len(self.pool)}

    def rule(self):
        return "one case = one fragment sequence; non-trivial = the read produced at least one warning"

    def cases(self):
        n = len(self.pool)
        for i in range(n):
            yield [i]
        step = 1 if self.tier != "quick" else 3
        for a in list(range(0, len(F), step)) + list(range(len(F), n)):
            for b in range(n):
                yield [a, b]

    def run(self, idx):
        if not hasattr(self, "drv"):
            self.worker_init(99)
        text = "\n".join(self.pool[i] for i in idx)
        try:
            doc, warn = self.drv.read("t", text, resolve=True)
        except RecursionError as exc:
            s = sig_of(exc)
            s["myst_function"], s["raised_in"] = "nested include", "recursion"
            s["front_end"] = "sphinx"
            return Obs(digest=("EXC", "RecursionError"), violations=[violation("uncaught-exception", s, "RecursionError (Sphinx front end)", text=text)])
        except Exception as exc:
            s = sig_of(exc)
            s["front_end"] = "sphinx"
            try:
                self.drv.app.env.temp_data.clear()
                self.drv.app.env.ref_context.clear()
            except Exception:
                pass
            return Obs(digest=("EXC", s["exc"], s["myst_function"]),
                       violations=[violation("uncaught-exception", s, f"{type(exc).__name__}: {str(exc)[:200]} (front end: Sphinx)", text=text,
                                             traceback="".join(traceback.format_exception(exc))[-2500:])])
        return Obs(digest=("ok", warn.count("WARNING")), nontrivial=bool(warn.strip()))


# ------------------------------------------------------------------------------------------------
# slots x atoms: every place of the syntax that accepts free text, filled with every "nasty" atom
TEMPLATES = [
    "[a](@)\n", "<@>\n", "[a](inv:@)\n", "[a](inv:k:@#x)\n", "[a](inv:#@)\n", "[a](#@)\n", "[a](project:@)\n", "<path:@>\n", "![a](@)\n", "[@](u)\n", "![@](u)\n",
    "[a](u \"@\")\n", "{abbr}`@`\n", "{@}`x`\n", "{math}`@`\n", "{ref}`@`\n", "```{@}\nbody\n```\n", "```{image} @\n```\n", "```{note} @\nbody\n```\n",
    "```{admonition} @\nbody\n```\n", "```{note}\n:class: @\n\nbody\n```\n", "```{note}\n:@: x\n\nbody\n```\n", "```{note}\n---\nclass: @\n---\nbody\n```\n",
    "```{figure} f.png\n:width: @\n:name: @\n\ncap\n```\n", "```{code-block} @\n:emphasize-lines: @\n\ncode\n```\n", "```@\ncode\n```\n", "```{include} @\n```\n",
    "```{include} ok.md\n:start-line: @\n```\n", "```{include} ok.md\n:heading-offset: @\n```\n", "```{include} ok.md\n:start-after: @\n```\n", "```{include} ok.md\n:code: @\n```\n",
    "```{line-block}\n@\n  @\n```\n", "```{list-table}\n:widths: @\n\n- - a\n```\n", "```{csv-table}\n:delim: @\n\na,b\n```\n", "```{eval-rst}\n@\n```\n",
    "---\na: @\n---\n", "---\n@: 1\n---\n", "---\ntitle: @\nauthor: @\n---\n", "---\nmyst:\n  heading_anchors: @\n---\n# H\n", "---\nmyst:\n  enable_extensions: @\n---\n",
    "---\nmyst:\n  url_schemes: @\n---\n[l](http://x)\n", "---\nmyst:\n  substitutions:\n    k: @\n---\n{{k}}\n", "---\nmyst:\n  html_meta:\n    @: @\n---\n",
    "---\nmyst:\n  heading_slug_func: @\n---\n# H\n", "---\nmyst:\n  @: 1\n---\n", "x[^@]\n\n[^@]: note\n", "[@]: http://u\n\n[x][@]\n", "(@)=\n# H\n\n[](#@)\n",
    "{#@ .@ k=@}\n# H\n", "![a](b){width=@ #@}\n", "[s]{.@ #@}\n", "{{ @ }}\n", "{{ a|@ }}\n", "# @\n\n## @\n\n[](#@)\n", "|a|@|\n|-|-|\n|@|b|\n", "$@$ and $$@$$ (@)\n",
    "\\begin{@}x\\end{@}\n", "<img src=\"@\" alt=\"@\">\n", "<div class=\"@\">\n<p>x</p>\n</div>\n", "<div class=\"admonition @\" name=\"@\">\n<p class=\"title\">@</p>\n<p>x</p>\n</div>\n",
    "[t](wiki:@)\n", "<wiki:@>\n", "```{note}\n:class: \"@\"\n\nbody\n```\n", "```{note}\n---\nclass: \"@\"\nname: '@'\n---\nbody\n```\n",
    "<@>x</@>\n", "Term @\n: def @\n", ":field @: body @\n", "- [@] task\n", "@\n===\n", "> @\n", "1. @\n", "+++ @\n", "% @\n", "@\n",
]
def _field_templates():
    """one template per MdParserConfig field: the value slot of that field in the document's own front matter"""
    import dataclasses

    from myst_parser.config.main import MdParserConfig

    body = "# H\n\n[l](http://x) {{k}} ~~s~~ x[^f]\n\n[^f]: n\n\n## H\n"
    return [f"---\nmyst:\n  {f.name}: @\n---\n{body}" for f in dataclasses.fields(MdParserConfig)
            if f.name != "gfm_only"]  # gfm_only needs linkify-it-py, which is not installed here


TEMPLATES += _field_templates()
ATOMS = [
    "", " ", "a", "\u00b2", "1e9", "-1", "0", "99999999999999999999", "[", "]", "[x", "://[x", "//[x]", "%zz", "%00", "%", "\\", "\"", "'", "{", "}", "{{", "}}", "*", "`", "|", ":", "#",
    "<", ">", "&", "&#0;", "&#x110000;", "\t", "a" * 300, "\u00e9", "\u2028", "../x", "/", ".", "..", "~", "!", "|\u00b2", "null", "true", "2020-01-01", "!!binary aGk=", "*x", "&x y",
    "- a", "? a", "[1, 2]", "{a: b}", "a: b", "a # b", "x\ny", "\u202e", "\ud7ff", "\x7f", "$", "\\n", "os.nope", "os.", "a.b.c",
    "2023-02-30", "!!int \"x\"", "!!bool \"x\"", "!!timestamp \"x\"", "{2020-01-01: x}", "[2020-01-01]", "C:\\qux", "org\\1", "%5Cdocs", "a\\x-1b", "\\u-001", "\\U-0000001", "\\x+1", "\\x1_",
    "3", "[a]", "{http: null}", "false", "1.5", "&x [*x]", "&x {k: *x}",
]


def slot_cases(tier):
    """(template, atom) for every pair; thorough: templates with several slots also get every ORDERED PAIR of atoms (first slot, other slots)"""
    for t in range(len(TEMPLATES)):
        for a in range(len(ATOMS)):
            yield [t, a]
    if tier != "quick":
        for t in range(len(TEMPLATES)):
            if TEMPLATES[t].count("@") >= 2:
                for a in range(len(ATOMS)):
                    for b in range(len(ATOMS)):
                        if a != b:
                            yield [t, a, b]


def slot_text(case):
    t, a = case[0], case[1]
    if len(case) == 2:
        return TEMPLATES[t].replace("@", ATOMS[a])
    return TEMPLATES[t].replace("@", ATOMS[a], 1).replace("@", ATOMS[case[2]])


class SlotSystem(System):
    name = "slots"

    def __init__(self, tier):
        super().__init__(tier)
        self.description = (f"{len(TEMPLATES)} templates, one per place of the syntax that accepts free text (link parts, role / directive names, arguments, option keys and values, "
                            f"front-matter keys and values incl. every myst: field kind, labels, attributes, substitutions, headings, cells, math, HTML attributes ...) x {len(ATOMS)} atoms "
                            "(empty, blanks, brackets, percent escapes, quotes, YAML indicators, control and bidi characters, very long, non-ASCII digits, paths) — every placeholder of a template gets the same atom; "
                            "docutils front end")

    def prepare(self, ctx):
        self.dir = ctx.scratch / "c01"
        prepare_files(self.dir)
        self.settings = base_settings(self.dir)
        self.root = ctx.scratch / "c01sxslots"
        self.root.mkdir(exist_ok=True)

    def bounds(self):
        return {"templates": len(TEMPLATES), "atoms": len(ATOMS)}

    def alphabet(self):
        return {"templates": TEMPLATES, "atoms": ATOMS}

    def rule(self):
        return "one case = (template, atom); non-trivial = a report was produced"

    def cases(self):
        yield from slot_cases(self.tier)

    def run(self, case):
        t, a = case[0], case[1]
        text = slot_text(case)
        v, dig, rep = run_docutils(text, self.settings, str(self.dir / "x.md"))
        return Obs(digest=dig, nontrivial=rep, violations=v[:2], canon=tuple(case))


class SphinxSlotSystem(System):
    """the same product through the in-process Sphinx front end (its own workers: a Sphinx app re-registers docutils directives process-wide)"""

    name = "slots-sphinx"
    jobs = 8

    def __init__(self, tier):
        super().__init__(tier)
        self.description = f"{len(TEMPLATES)} templates x {len(ATOMS)} atoms through an in-process Sphinx application (read + post-transforms)"

    def prepare(self, ctx):
        self.root = ctx.scratch / "c01sxslots"
        self.root.mkdir(exist_ok=True)

    def worker_init(self, wid):
        from ..drivers import SphinxDriver

        conf = (f"myst_enable_extensions={EXT!r}\nmyst_heading_anchors=2\nmyst_title_to_header=True\nmyst_substitutions={SUBS!r}\nmyst_url_schemes={URL_SCHEMES!r}\n")
        self.drv = SphinxDriver(self.root / f"w{wid}", conf=conf)
        prepare_files(self.drv.src)

    def bounds(self):
        return {"templates": len(TEMPLATES), "atoms": len(ATOMS)}

    def rule(self):
        return "one case = (template, atom); non-trivial = the read produced a warning"

    def cases(self):
        yield from slot_cases(self.tier)

    def run(self, case):
        t, a = case[0], case[1]
        text = slot_text(case)
        if not hasattr(self, "drv"):
            self.worker_init(99)
        try:
            text.encode("utf8")
        except UnicodeEncodeError:
            return Obs(digest="unencodable", nontrivial=False)  # a lone surrogate cannot be stored in a source file
        try:
            doc, warn = self.drv.read("t", text, resolve=True)
        except RecursionError:
            return Obs(digest="recursion", nontrivial=False)
        except Exception as exc:
            sg = sig_of(exc)
            sg["front_end"] = "sphinx"
            try:
                self.drv.app.env.temp_data.clear()
                self.drv.app.env.ref_context.clear()
            except Exception:
                pass
            return Obs(digest=("EXC", sg["exc"], sg["myst_function"]),
                       violations=[violation("uncaught-exception", sg, f"{type(exc).__name__}: {str(exc)[:300]} (front end: Sphinx)", text=text,
                                             traceback="".join(traceback.format_exception(exc))[-2500:])])
        return Obs(digest=("ok", warn.count("WARNING")), nontrivial=bool(warn.strip()))


MODES = [
    {}, {"myst_commonmark_only": True}, {"myst_all_links_external": True}, {"myst_heading_anchors": 3, "myst_title_to_header": True},
    {"myst_footnote_sort": False, "myst_footnote_transition": False},
    {"myst_links_external_new_tab": True, "myst_url_schemes": {"http": {"url": "{{scheme}}://x/{{path}}", "title": "{{uri}}", "classes": ["c"]}, "x": None}},
    {"myst_dmath_double_inline": True, "myst_dmath_allow_labels": False, "myst_dmath_allow_space": False, "myst_dmath_allow_digits": False, "myst_enable_checkboxes": True},
    {"myst_highlight_code_blocks": False, "myst_number_code_blocks": ["py"], "myst_fence_as_directive": ["py", "mermaid", "note"]},
    {"myst_disable_syntax": ["emphasis", "link", "table", "list"]}, {"myst_suppress_warnings": ["myst"]},
    {"doctitle_xform": True, "sectsubtitle_xform": True},  # docutils' own defaults: a lone top-level section is promoted to the document title
]


class ConfigSystem(System):
    name = "configurations"
    chunk = 4

    def __init__(self, tier):
        super().__init__(tier)
        self.description = ("every fragment of the pool under extension subsets " + ("of size <= 1 and >= 14" if tier == "quick" else "of size <= 2 and >= 13 (all 2^15 subsets are beyond the budget; see caps)")
                            + f" of the 15 importable extensions x {len(MODES)} option settings")

    def prepare(self, ctx):
        self.dir = ctx.scratch / "c01"
        prepare_files(self.dir)

    def bounds(self):
        return {"extensions": len(ALLEXT), "modes": len(MODES), "fragments": len(F)}

    def rule(self):
        return "one case = (extension subset, mode): all fragments are parsed (transitions); non-trivial = always"

    def subsets(self):
        sizes = (0, 1, len(ALLEXT) - 1, len(ALLEXT)) if self.tier == "quick" else (0, 1, 2, len(ALLEXT) - 2, len(ALLEXT) - 1, len(ALLEXT))
        for k in sizes:
            for c in itertools.combinations(range(len(ALLEXT)), k):
                yield list(c)

    def cases(self):
        for sub in self.subsets():
            for m in range(len(MODES)):
                yield [sub, m]

    def run(self, case):
        sub, m = case
        st = {"myst_inventories": {"k": ["http://x", str(self.dir / "bad.inv")]}, "myst_substitutions": {"a": "{{b}}", "b": "{{a}}", "c": "{{ 1/0 }}", "e": "# H"},
              "myst_enable_extensions": [ALLEXT[i] for i in sub], **MODES[m]}
        viol, n, nexc = [], 0, 0
        seen = set()
        for text, _ in F:
            n += 1
            v, dig, rep = run_docutils(text, st, str(self.dir / "x.md"))
            for x in v:
                key = repr(x["signature"])
                if key not in seen:
                    seen.add(key)
                    viol.append(x)
            nexc += bool(v)
        return Obs(digest=(tuple(sub), m, nexc), violations=viol[:6], transitions=n, validated=n)


ANSWERS = ["ok", "missing", "directory", "undecodable", "denied", "toolong", "nul", "self", "mutual", "emptyfile", "self-dotdot", "mutual-dotdot"]
CONSTRUCTS = ["include", "include-literal", "include-code", "inventory"]


class FaultSystem(System):
    name = "faults"
    chunk = 2

    def __init__(self, tier):
        super().__init__(tier)
        self.description = (f"{len(CONSTRUCTS)} file-consuming constructs x {len(ANSWERS)} file-system answers (regular, missing, directory, undecodable bytes, permission denied "
                            "(injected), name too long, embedded NUL, self-including, mutually including, empty), all single constructs and all ordered pairs, docutils front end")

    def prepare(self, ctx):
        self.dir = ctx.scratch / "c01"
        prepare_files(self.dir)
        (self.dir / "empty.md").write_text("")
        (self.dir / "denied.md").write_text("secret\n")
        (self.dir / "denied.inv").write_text("secret\n")

    def bounds(self):
        return {"constructs": len(CONSTRUCTS), "answers": len(ANSWERS), "sequence": 2}

    def alphabet(self):
        return {"constructs": CONSTRUCTS, "answers": ANSWERS}

    def rule(self):
        return "one case = sequence of (construct, answer) pairs; non-trivial = some answer is a fault"

    def cases(self):
        pairs = [(c, a) for c in range(len(CONSTRUCTS)) for a in range(len(ANSWERS))]
        for p in pairs:
            yield [list(p)]
        for p, q in itertools.product(pairs, repeat=2):
            if self.tier == "quick" and (p[1] == 0 and q[1] == 0):
                continue
            yield [list(p), list(q)]

    def path_for(self, ans, inv=False):
        ext = ".inv" if inv else ".md"
        return {"ok": "ok" + ext, "missing": "nope" + ext, "directory": "adir", "undecodable": "bin.md", "denied": "denied" + ext, "toolong": "n" * 300 + ext,
                "nul": "a\x00b" + ext, "self": "self.md", "mutual": "m1.md", "emptyfile": "empty.md",
                "self-dotdot": "adir/../self2.md", "mutual-dotdot": "adir/inc3.md"}[ans]

    def run(self, case):
        import builtins
        import pathlib

        text = "PRE\n\n"
        invs = {}
        faulty = False
        for j, (c, a) in enumerate(case):
            cons, ans = CONSTRUCTS[c], ANSWERS[a]
            faulty = faulty or (ans not in ("ok", "emptyfile") and not (ans in ("self", "mutual", "self-dotdot", "mutual-dotdot") and cons != "include"))
            p = self.path_for(ans, inv=(cons == "inventory"))
            if cons == "include":
                text += f"```{{include}} {p}\n```\n\n"
            elif cons == "include-literal":
                text += f"```{{include}} {p}\n:literal:\n```\n\n"
            elif cons == "include-code":
                text += f"```{{include}} {p}\n:code: python\n```\n\n"
            elif cons == "csv-file":
                text += f"```{{csv-table}}\n:file: {p}\n```\n\n"
            elif cons == "raw-file":
                text += f"```{{raw}} html\n:file: {p}\n```\n\n"
            else:
                invs[f"k{j}"] = ["http://x/", str(self.dir / p)]
                text += f"[](inv:k{j}#x)\n\n"
        text += "POST\n"
        st = {"myst_enable_extensions": EXT, "myst_inventories": invs}
        real_read, real_open = pathlib.Path.read_text, builtins.open

        def read_text(self_, *a, **k):
            if self_.name.startswith("denied"):
                raise PermissionError(13, "Permission denied", str(self_))
            return real_read(self_, *a, **k)

        def open_(file, *a, **k):
            if isinstance(file, (str, os.PathLike)) and os.path.basename(os.fspath(file)).startswith("denied"):
                raise PermissionError(13, "Permission denied", str(file))
            return real_open(file, *a, **k)

        pathlib.Path.read_text, builtins.open = read_text, open_
        try:
            v, dig, rep = run_docutils(text, st, str(self.dir / "x.md"))
        finally:
            pathlib.Path.read_text, builtins.open = real_read, real_open
        if not v and faulty and not rep:
            v.append(violation("silently-swallowed", {"clause": "silently-swallowed", "fragment": "fault"},
                               f"an unreadable file produced no report: {case}", text=text))
        return Obs(digest=dig, nontrivial=faulty, violations=v)


def systems(tier):
    return [SoupSystem(tier), FragmentSystem(tier), SlotSystem(tier), SphinxFragmentSystem(tier), SphinxSlotSystem(tier), ConfigSystem(tier), FaultSystem(tier)]
