"""C07 — option tokenizer agrees with YAML on its subset and fails only its own way.

Systems (all exhaustive for their bound, DESIGN.md §4 C07):
  slice-*   every string of length <= n over a small alphabet of YAML-significant characters
  grammar   option blocks generated from a grammar of entries (plain/quoted/block scalars ...)
Reference model: PyYAML's *event stream* (yaml.parse) — decides membership of the supported subset
and supplies the expected (key, value) strings.
"""

from __future__ import annotations

import itertools

import yaml

from ..engine import Obs, System, violation

PROPERTY_ID = "C07"
LEVEL = "model_checking"
ASSUMPTIONS = [
    "PyYAML 6.0.3 (yaml.parse event stream, SafeLoader) is the conforming YAML reference",
    "supported subset = implicit single document, one block mapping of scalar pairs, no anchors/tags, "
    "keys at column 0 and not block scalars, non-empty values at column > 0 (DESIGN.md §5)",
    "tab/BOM slice is checked for totality only",
]

from myst_parser.parsers.options import TokenizeError, options_to_items  # noqa: E402

SLICES = {
    # name: (alphabet, quick n, thorough n, agreement checked?)
    "A-structure": ("a: \n#'\"|>", 6, 7, True),
    "B-block": ("a:|>+-1 \n", 6, 7, True),
    "C-quote": ("a:\"'\\n \n", 6, 7, True),
    "C2-escape": ("a:\"\\xu41", 6, 7, True),
    "D-breaks": ("a: \"\r\n\x85\u2028", 6, 7, True),
    "E-tabs-bom": ("a: \n#\t\ufeff", 6, 7, False),
    "F-dash-flow": ("a: \n-?[]{},&*!%@`", 4, 5, True),
    "G-tab-quote": ("a:\"' \t\n\\", 6, 7, True),
    "H-tab-plain-block": ("a:|> \t\n#", 6, 7, True),
    "J-unicode-space": ("a: \n\u00a0\u3000\u2003#'", 6, 7, True),
    "I-unicode-digits": ("a:|>+1\u00b2\u0663 \n", 6, 7, False),
}

BREAKS = "\n\x85\u2028\u2029"


def yaml_pairs(text: str):
    """(pairs, why): pairs is None when the text is outside the supported subset."""
    try:
        evs = list(yaml.parse(text, Loader=yaml.SafeLoader))
    except yaml.YAMLError:
        return None, "yamlerr", None
    except Exception:  # PyYAML itself misbehaving (e.g. chr() overflow) is outside the subset
        return None, "yamlcrash", None
    if len(evs) < 6:
        return None, "short", None
    if not isinstance(evs[1], yaml.DocumentStartEvent) or evs[1].explicit:
        return None, "docstart", None
    m = evs[2]
    if not isinstance(m, yaml.MappingStartEvent) or m.flow_style or m.anchor or m.tag:
        return None, "notmap", None
    if not isinstance(evs[-3], yaml.MappingEndEvent):
        return None, "nomapend", None
    if evs[-2].explicit:
        return None, "docend", None
    body = evs[3:-3]
    if len(body) % 2:
        return None, "odd", None
    for i, e in enumerate(body):
        if not isinstance(e, yaml.ScalarEvent) or e.anchor or e.tag:
            return None, "nonscalar", None
        if i % 2 == 0 and e.start_mark.column != 0:
            return None, "keycol", None
        if i % 2 == 0 and e.style in ("|", ">"):
            return None, "blockkey", None
        if i % 2 == 1 and e.start_mark.column == 0 and not (e.value == "" and e.style is None):
            return None, "valcol0", None
    pairs = [(k.value, v.value) for k, v in zip(body[::2], body[1::2])]
    styles = [v.style for v in body[1::2]]
    return pairs, "ok", styles


def expected_line_col(text: str, index: int):
    line = col = 0
    i = 0
    while i < index and i < len(text):
        ch = text[i]
        if ch in BREAKS or (ch == "\r" and text[i + 1 : i + 2] != "\n"):
            line += 1
            col = 0
        elif ch != "\ufeff":
            col += 1
        i += 1
    return line, col


def check_offsets(text, pairs, err, viol):
    """the documented offsets only move the reported positions: same pairs, or the same error three lines further down"""
    try:
        p2, e2 = options_to_items(text, line_offset=3, column_offset=2)[0], None
    except TokenizeError as exc:
        p2, e2 = None, exc
    except Exception as exc:
        viol.append(violation("totality", {"clause": "totality", "exc": type(exc).__name__, "with_offsets": True},
                              f"options_to_items(text, line_offset=3, column_offset=2) raised {type(exc).__name__}: {exc}", text=text))
        return
    if (p2 is None) != (pairs is None) or (p2 is not None and p2 != pairs):
        viol.append(violation("error-position", {"clause": "error-position", "kind": "offsets-change-result"},
                              f"with line/column offsets the result is {p2!r} / {e2!r}, without {pairs!r} / {err!r}", text=text))
    elif e2 is not None and e2.problem_mark is not None and err.problem_mark is not None and e2.problem_mark.line != err.problem_mark.line + 3:
        viol.append(violation("error-position", {"clause": "error-position", "kind": "line-offset"},
                              f"line_offset=3: error line {e2.problem_mark.line}, without offset {err.problem_mark.line}", text=text))


def check_text(text: str, agreement: bool, offsets: bool = False) -> Obs:
    viol = []
    stats = {}
    try:
        pairs = options_to_items(text)[0]
        err = None
    except TokenizeError as exc:
        pairs, err = None, exc
        mark = exc.problem_mark
        ok = (
            mark is not None
            and isinstance(mark.index, int)
            and 0 <= mark.index <= len(text)
        )
        if not ok:
            viol.append(
                violation(
                    "error-position",
                    {"clause": "error-position", "kind": "index-out-of-text"},
                    f"TokenizeError position {mark!r} is not inside the text (len {len(text)})",
                    text=text,
                )
            )
        elif "\ufeff" not in text and (mark.line, mark.column) != expected_line_col(text, mark.index):
            viol.append(
                violation(
                    "error-position",
                    {"clause": "error-position", "kind": "line-column-inconsistent"},
                    f"TokenizeError mark {mark!r} inconsistent with index (expected line/col "
                    f"{expected_line_col(text, mark.index)})",
                    text=text,
                )
            )
    except Exception as exc:
        viol.append(
            violation(
                "totality",
                {"clause": "totality", "exc": type(exc).__name__},
                f"options_to_items raised {type(exc).__name__}: {exc} (only TokenizeError is documented)",
                text=text,
            )
        )
        return Obs(digest=("crash", type(exc).__name__), violations=viol, stats={"crash": 1})
    if offsets:
        check_offsets(text, pairs, err, viol)
    if pairs is not None and not all(
        isinstance(k, str) and isinstance(v, str) for k, v in pairs
    ):
        viol.append(
            violation(
                "totality",
                {"clause": "totality", "exc": "non-string-pair"},
                f"returned non-string pairs {pairs!r}",
                text=text,
            )
        )
    in_subset = False
    if agreement:
        ref, why, styles = yaml_pairs(text)
        if ref is not None:
            in_subset = True
            stats["in_subset"] = 1
            if pairs is None:
                viol.append(
                    violation(
                        "agreement",
                        {"clause": "agreement", "kind": "tokenize-error-inside-subset",
                         "style": repr(styles[:1])},
                        f"TokenizeError ({err.problem}) on text inside the YAML subset; YAML gives {ref!r}",
                        text=text,
                        expected=ref,
                    )
                )
            elif pairs != ref:
                i = next(
                    (j for j, (p, q) in enumerate(zip(pairs, ref)) if p != q),
                    min(len(pairs), len(ref)),
                )
                style = styles[i] if i < len(styles) else None
                viol.append(
                    violation(
                        "agreement",
                        {"clause": "agreement", "kind": "pairs-differ", "style": repr(style)},
                        f"pairs differ from YAML: got {pairs!r}, YAML {ref!r}",
                        text=text,
                        expected=ref,
                        observed=pairs,
                    )
                )
        else:
            stats["out:" + why] = 1
    digest = ("err", err.problem) if pairs is None else ("ok", tuple(pairs))
    return Obs(
        digest=digest,
        nontrivial=in_subset or pairs is None or bool(pairs),
        violations=viol,
        stats=stats,
        validated=1,
    )


class SliceSystem(System):
    def __init__(self, tier, name, alpha, n, agreement):
        super().__init__(tier)
        self.name = "slice-" + name
        self.alpha = alpha
        self.n = n
        self.agreement = agreement
        self.description = (
            f"all strings of length <= {n} over {alpha!r}; "
            + ("totality + agreement with PyYAML on the subset" if agreement else "totality only")
        )

    def bounds(self):
        return {"max_length": self.n, "alphabet_size": len(self.alpha)}

    def alphabet(self):
        return list(self.alpha)

    def rule(self):
        return (
            "every string over the alphabet up to the length bound, each once; non-trivial = "
            "inside the YAML subset, or yields >=1 pair, or raises TokenizeError"
        )

    def cases(self):
        for length in range(self.n + 1):
            for tup in itertools.product(self.alpha, repeat=length):
                yield "".join(tup)

    def run(self, case):
        return check_text(case, self.agreement, offsets=self.name == "slice-A-structure")


# ----------------------------------------------------------------------------------------------
# grammar of option blocks

KEYS = ["a", "k2", "'k q'", '"k\\tq"']
SIMPLE_VALUES = [
    "",
    " v",
    " v w",
    " v # c",
    " v#c",
    " 'it''s'",
    " 'q' # c",
    ' "d"',
    ' "e\\n\\t\\\\\\"x"',
    ' "\\x41\\u00e9\\U0001F600"',
    ' "\\0\\a\\b\\e\\ \\/\\N\\_\\L\\P"',
    ' "\\q"',
    ' "\\UFFFFFFFF"',
    ' "\\xZZ"',
    ' "unterminated',
    " 'unterminated",
    " v\n  w",
    " v\n w\n   x",
    " v\n\n  w",
    "\n  v",
    "\n  v\n  w",
    " 'a\n  b'",
    " 'a\n\n  b'",
    ' "a\n  b"',
    ' "a\\\n  b"',
    ' "a \\\n    b"',
    ' "a\n\n  b"',
    " - x",
    " [x]",
    " {x}",
    " x: y",
    " *x",
    " &x y",
    " !t y",
    " @x",
    " `x",
    " %x",
    " ?x",
    " ? x",
    " -x",
    " :x",
    " x:",
    " |x",
    " >x",
]
BLOCK_HEADERS = [
    s + ind
    for s in "|>"
    for ind in ["", "+", "-", "1", "2", "+1", "1+", "-2", "2-", "+2", "-1", "3", "0", "10", "++"]
]
BODY_LINES = ["  text", "", "   more", " less", "  t2", "    ", "\tx"]
SEPARATORS = ["\n", "\n\n", "\n# c\n", "\n  \n"]


def block_bodies(maxlines):
    for n in range(maxlines + 1):
        yield from itertools.product(range(len(BODY_LINES)), repeat=n)


class GrammarSystem(System):
    name = "grammar"
    distinct_by_construction = False
    description = "option blocks derived from the entry grammar (keys x value forms x block-scalar headers x bodies), 1-3 entries"

    def bounds(self):
        return {
            "entries": 3,
            "block_body_lines": 3 if self.tier == "quick" else 4,
            "keys": len(KEYS),
            "simple_values": len(SIMPLE_VALUES),
            "block_headers": len(BLOCK_HEADERS),
        }

    def alphabet(self):
        return {
            "keys": KEYS,
            "simple_values": SIMPLE_VALUES,
            "block_headers": BLOCK_HEADERS,
            "body_lines": BODY_LINES,
            "separators": SEPARATORS,
        }

    def rule(self):
        return (
            "every derivation of the grammar within the bounds; non-trivial = inside the YAML "
            "subset, or >=1 pair, or TokenizeError"
        )

    def _values(self, body_lines, headers=BLOCK_HEADERS, comments=("", " # c")):
        for v in SIMPLE_VALUES:
            yield v
        for h in headers:
            for c in comments:
                for body in block_bodies(body_lines):
                    yield " " + h + c + "".join("\n" + BODY_LINES[i] for i in body)

    def cases(self):
        nb = 3 if self.tier == "quick" else 4
        # (1) single entries: every key x every value
        singles = []
        for k in KEYS:
            for v in self._values(nb):
                singles.append(k + ":" + v)
        for s in singles:
            yield s
            yield s + "\n"
        # (2) pairs: reduced pool x reduced pool x separators, then full-single between plain entries
        red_vals = list(SIMPLE_VALUES) + [
            v for v in self._values(2, headers=["|", ">", "|-", ">+", "|2", ">1-"], comments=("",))
            if v not in SIMPLE_VALUES
        ]
        red = ["a:" + v for v in red_vals]
        red_b = ["b:" + v for v in red_vals]
        for e1 in red:
            for sep in SEPARATORS:
                for e2 in red_b:
                    yield e1 + sep + e2
        for s in singles:
            if s.startswith("a:"):
                yield "z: 1\n" + s
                yield s + "\nz: 1"
                yield "# c\n\n" + s + "\n\n# c"
        # (3) triples over a small pool
        small = [
            "", " v", " v # c", " 'q'", ' "d"', " v\n  w", " |\n  text", " >\n  text\n  t2",
            " |-\n  text\n", " >+\n  text\n\n", "\n  v", " - x",
        ]
        if self.tier == "thorough":
            small = small + [" |2\n   more", ' "a\\\n  b"', " 'a\n  b'", " >\n  text\n\n  t2", " v\n\n  w"]
        for v1 in small:
            for v2 in small:
                for v3 in small:
                    yield "a:" + v1 + "\nb:" + v2 + "\nc:" + v3

    def run(self, case):
        return check_text(case, True)


WS = ["", " ", "\t", " \t", "\t ", "\t\t", "  "]


class FoldSystem(System):
    """Multi-line scalars of every style with every white-space run (blanks and TABs) around the line breaks."""

    name = "fold-whitespace"
    description = ("values of the form Q a WS1 BREAKS INDENT WS2 b [WS3 BREAKS INDENT WS4 c] Q for Q in {plain, ', \"} and folded/literal "
                   "block scalars with WS runs at line ends; WS over all strings of length <= 2 of {space, TAB}; 1-2 line breaks")

    def bounds(self):
        return {"ws_runs": len(WS), "lines": 3}

    def alphabet(self):
        return {"ws": WS, "quotes": ["", "'", '"'], "breaks": ["\n", "\n\n"], "indent": [" ", "  "]}

    def rule(self):
        return "every combination within the bounds; non-trivial = inside the YAML subset, or >=1 pair, or TokenizeError"

    def cases(self):
        for q in ("", "'", '"'):
            for w1 in WS:
                for br in ("\n", "\n\n", "\n \n", "\n\n \n", "\n  \n\n", "\n\n\n"):
                    for ind in (" ", "  "):
                        for w2 in WS:
                            base = f"k: {q}a{w1}{br}{ind}{w2}b"
                            yield base + q
                            yield base + q + "\nz: 1"
                            for w3 in WS[:4]:
                                for w4 in WS[:4]:
                                    yield f"{base}{w3}{br}{ind}{w4}c{q}"
        for h in ("|", ">", "|-", ">+", ">2", "|1"):
            for w1 in WS:
                for w2 in WS:
                    for w3 in WS[:4]:
                        yield f"k: {h}\n  a{w1}\n  {w2}b{w3}\n"
                        yield f"k: {h}\n  a{w1}\n\n   {w2}b\n  c{w3}"
                        yield f"k: {h}{w1}\n  a\n{w2}\n  b"
                        yield f"k: {h}\n a\n   {w1}\n b{w3}\n"
                        yield f"k: {h}\n a\n  {w1}\n\n    {w2}\n b\n"

    def run(self, case):
        return check_text(case, True)


BK = ["\n", "\r", "\r\n", "\x85", "\u2028", "\u2029"]


class BreakSystem(System):
    """Every run of 1-3 line breaks of every kind inside every scalar style, and as entry separator."""

    name = "fold-breaks"
    description = ("values Q a BREAKS INDENT b Q for Q in {plain, ', \"} and block scalars, BREAKS over all sequences of <= 3 (thorough 4) of "
                   "{LF, CR, CRLF, NEL, LS, PS}, optionally with a blank before/after; the same runs as separators between two entries")

    def bounds(self):
        return {"break_kinds": len(BK), "run_length": 3 if self.tier == "quick" else 4}

    def alphabet(self):
        return {"breaks": BK, "quotes": ["", "'", '"'], "headers": ["|", ">", "|-", ">+"]}

    def rule(self):
        return "every combination within the bounds; non-trivial = inside the YAML subset, or >=1 pair, or TokenizeError"

    def cases(self):
        n = 3 if self.tier == "quick" else 4
        runs = ["".join(c) for k in range(1, n + 1) for c in itertools.product(BK, repeat=k)]
        for br in runs:
            for q in ("", "'", '"'):
                for w in ("", " "):
                    yield f"k: {q}a{w}{br} b{q}"
                    yield f"k: {q}a{br} {w}b{q}\nz: 1"
            # an ESCAPED first break inside a double-quoted scalar (line continuation), followed by the rest of the run
            yield f'k: "a\\{br} b"'
            yield f'k: "\\{br}"'
            yield f'k: "a \\{br}  b\\{br} c"\nz: 1' 
            for h in ("|", ">", "|-", ">+"):
                yield f"k: {h}{br} a{br} b"
                yield f"k: {h}\n a{br} b\nz: 1"
            yield f"a: 1{br}b: 2{br}"
            yield f"a: 'x'{br}b: y"
            yield f"a: |{br} x{br} y{br}b: 2"
            yield f"a:{br} v{br}b: \"w\"{br}"

    def run(self, case):
        return check_text(case, True)


HEXA = "1aF-+_ g"


class EscapeSystem(System):
    """Numeric escapes of double-quoted scalars with every digit string over an alphabet of hex digits and look-alikes."""

    name = "escapes"
    description = ("k: \"p\\xHH q\", \\uHHHH with every digit string over {1, a, F, -, +, _, space, g}; \\UHHHHHHHH with every replacement of <= 2 "
                   "positions of 00000041 / 0010FFFF / 00110000 by those characters; as value and as key")

    def bounds(self):
        return {"digit_alphabet": len(HEXA), "U_positions_changed": 2}

    def alphabet(self):
        return {"digits": HEXA}

    def rule(self):
        return "every combination within the bounds; non-trivial = inside the YAML subset, or >=1 pair, or TokenizeError"

    def cases(self):
        digs = ["x" + "".join(c) for c in itertools.product(HEXA, repeat=2)] + ["u" + "".join(c) for c in itertools.product(HEXA, repeat=4)]
        for base in ("00000041", "0010FFFF", "00110000"):
            digs.append("U" + base)
            for i in range(8):
                for ch in HEXA:
                    d1 = base[:i] + ch + base[i + 1:]
                    digs.append("U" + d1)
                    if self.tier != "quick" or i < 2:
                        for j in range(i + 1, 8):
                            for ch2 in "-+_ ":
                                digs.append("U" + d1[:j] + ch2 + d1[j + 1:])
        for d in digs:
            yield f'k: "p\\{d}q"'
            yield f'"\\{d}": v'

    def run(self, case):
        return check_text(case, True)


def systems(tier):
    out = [FoldSystem(tier), BreakSystem(tier), EscapeSystem(tier)]
    for name, (alpha, nq, nt, agree) in SLICES.items():
        out.append(SliceSystem(tier, name, alpha, nq if tier == "quick" else nt, agree))
    out.append(GrammarSystem(tier))
    return out


def vacuity(results):
    errs = []
    for r in results:
        if r.name.startswith("slice-") and r.name not in ("slice-E-tabs-bom", "slice-I-unicode-digits"):
            if r.stats.get("in_subset", 0) < 10:
                errs.append(f"{r.name}: fewer than 10 strings inside the YAML subset (vacuous agreement clause)")
        if r.name == "grammar" and r.stats.get("in_subset", 0) < 1000:
            errs.append("grammar: fewer than 1000 blocks inside the YAML subset")
    return errs
