"""C11 — footnotes are numbered, linked and collected consistently.

System (DESIGN.md §4 C11): all sequences of <= n blocks over a 13-symbol alphabet of paragraphs with
footnote references and footnote definitions (named, numeric, duplicate by repetition, never defined,
never referenced, inside a quote / list item)  x  footnote_sort  x  footnote_transition, through the
full docutils pipeline.  Reference model: numbering / linking / collection model below.
"""

from __future__ import annotations

import itertools
from collections import Counter

from docutils import nodes

from ..drivers import docutils_doctree
from ..engine import Obs, System, violation

PROPERTY_ID = "C11"
LEVEL = "model_checking"
ASSUMPTIONS = [
    "numbering by first reference is asserted with footnote_sort=True only; with sorting off only numeric labels, distinctness and ref/def consistency are asserted (DESIGN.md §5)",
    "a document consisting of footnotes (and messages) only is unspecified for the transition clause",
    "references to a label that is never defined are outside the statement (only required not to disturb the others)",
    "docutils front end, full transform pipeline, doctitle_xform off",
]

# ("ref", [labels]) | ("def", label, context)
SYM = [
    ("ref", ["a"]), ("ref", ["b"]), ("ref", ["1"]), ("ref", ["2"]), ("ref", ["a", "a"]), ("ref", ["zz"]),
    ("def", "a", ""), ("def", "b", ""), ("def", "1", ""), ("def", "2", ""), ("def", "a", "q"), ("def", "b", "l"), ("def", "u", ""),
    ("ref", ["b", "a"]), ("ref", ["c", "a", "c"]), ("def", "c", ""),
    ("refd", ["a"]), ("refd", ["b", "a"]),  # references inside a directive body (rendered by a nested parse)
    ("ref", ["A"]), ("def", "A", ""), ("ref", ["a", "A"]),  # labels are case-sensitive: [^A] is not [^a]
    ("def", "02", ""), ("def", "10", ""), ("ref", ["10", "02"]),  # numeric labels are ordered by value, not as strings ('02' < '3' < '10')
    ("def", "a", "n"), ("def", "3", ""),  # 'n': a duplicate definition nested in the body of the first one
    ("def", "2nd", ""), ("ref", ["2nd", "b"]),  # a label that merely STARTS with digits is a named (auto-numbered) label
    ("refx", ["a"]), ("refx", ["b", "a"]),  # references inside directive content that the directive DISCARDS (figure with a list as caption): they are not references
    ("reft", ["b"]), ("reft", ["a", "b"]),  # references in a directive TITLE (parsed by the mock inliner)
    ("refa", ["a"]), ("refa", ["b", "a"]),  # references directly followed by an attribute block (attrs_inline): still references
]
SYM_SMALL = [0, 1, 2, 4, 6, 7, 8, 12, 13, 16, 29]
BULLETS = "-*+"


def text_of(seq):
    out = []
    for i, s in enumerate(seq):
        if s[0] == "ref":
            out.append(f"P{i} " + " ".join(f"[^{l}]" for l in s[1]))
        elif s[0] == "refa":
            out.append(f"P{i} " + " ".join(f"[^{l}]{{.cite}}" for l in s[1]))
        elif s[0] == "refd":
            out.append("```{note}\n" + f"P{i} " + " ".join(f"[^{l}]" for l in s[1]) + "\n```")
        elif s[0] == "refx":
            out.append("```{figure} img.png\n- X" + f"{i} " + " ".join(f"[^{l}]" for l in s[1]) + "\n```")
        elif s[0] == "reft":
            out.append("```{admonition} " + f"P{i} " + " ".join(f"[^{l}]" for l in s[1]) + "\nbody\n```")
        else:
            body = f"[^{s[1]}]: D{i}{s[1]}"
            if s[2] == "q":
                body = "> " + body
            if s[2] == "l":
                body = f"{BULLETS[i % 3]} " + body
            if s[2] == "n":
                body = body + f"\n\n    [^{s[1]}]: N{i}{s[1]}"
            out.append(body)
    return "\n\n".join(out) + "\n"


def model(seq, sort):
    defs, seen, dups = [], set(), 0
    for i, s in enumerate(seq):
        if s[0] == "def":
            if s[1] in seen:
                dups += 1
            else:
                seen.add(s[1])
                defs.append((s[1], i))
                if s[2] == "n":
                    dups += 1  # (the body of a dropped duplicate is not rendered: its nested duplicate is never met)
    refs = [(l, i) for i, s in enumerate(seq) if s[0] in ("ref", "refd", "reft", "refa") for l in s[1]]
    manual = {l for l, _ in defs if l.isdigit()}
    autos = [l for l, _ in defs if not l.isdigit()]
    order = []
    for l, _ in refs:
        if not l.isdigit() and l not in order:
            order.append(l)
    if sort:
        autos.sort(key=lambda l: order.index(l) if l in order else 999)
    num = {l: l for l in manual}
    n = 1
    for l in autos:
        while str(n) in manual:
            n += 1
        num[l] = str(n)
        n += 1
    referenced = {l for l, _ in refs}
    unref = sum(1 for l, _ in defs if l not in referenced)
    return num, dups, unref, defs, refs


def model_structure(seq, sort, trans, num, defs):
    kept = {i for _, i in defs}
    out = []
    for i, s in enumerate(seq):
        if s[0] in ("ref", "refa"):
            out.append(("paragraph",))
        elif s[0] == "refd":
            out.append(("note",))
        elif s[0] == "refx":
            out.append(("figure",))
        elif s[0] == "reft":
            out.append(("admonition",))
        elif s[2] == "q":
            out.append(("block_quote",))
        elif s[2] == "l":
            out.append(("bullet_list",))
        elif not sort and i in kept:
            out.append(("fn", num[s[1]], s[1]))
    if not sort:
        return out
    fns = sorted([("fn", num[l], l) for l, _ in defs], key=lambda x: int(x[1]))
    if fns and trans and out:
        out.append(("tr", True))
    return out + fns


def structure(doc):
    out = []
    for c in doc.children:
        if isinstance(c, nodes.title):
            continue
        if isinstance(c, nodes.footnote):
            out.append(("fn", c[0].astext() if len(c) and isinstance(c[0], nodes.label) else None, c["names"][0] if c["names"] else None))
        elif isinstance(c, nodes.transition):
            out.append(("tr", "footnotes" in c["classes"]))
        elif isinstance(c, nodes.system_message):
            continue
        else:
            out.append((c.tagname,))
    return out


class FootnoteSystem(System):
    def __init__(self, tier, name, symbols, n):
        super().__init__(tier)
        self.name = name
        self.symbols = symbols
        self.n = n
        self.description = (f"all sequences of <= {n} blocks over {len(symbols)} footnote symbols x footnote_sort x footnote_transition, docutils pipeline")

    def bounds(self):
        return {"length": self.n, "symbols": len(self.symbols)}

    def alphabet(self):
        return [SYM[i] for i in self.symbols]

    def rule(self):
        return "one case = (symbol sequence, sort, transition); non-trivial = at least one definition and one reference to a defined label"

    def cases(self):
        for n in range(1, self.n + 1):
            for idx in itertools.product(self.symbols, repeat=n):
                for sort in (True, False):
                    for trans in (True, False):
                        yield [list(idx), sort, trans]

    def run(self, case):
        idx, sort, trans = case
        seq = [SYM[i] for i in idx]
        text = text_of(seq)
        doc, warn = docutils_doctree(text, {"myst_footnote_sort": sort, "myst_footnote_transition": trans, "myst_enable_extensions": ["attrs_inline"]})
        return evaluate(seq, sort, trans, text, doc, warn, "docutils")


def evaluate(seq, sort, trans, text, doc, warn, front_end):
    if True:
        num, dups, unref, defs, refs = model(seq, sort)
        viol = []

        def bad(clause, msg, **sig):
            viol.append(violation(clause, {"clause": clause, "sort": sort, **({"front_end": front_end} if front_end != "docutils" else {}), **sig},
                                  f"[{front_end}] sort={sort} transition={trans}: {msg}", text=text,
                                  warnings=warn, doctree=doc.pformat()[:3000])) 
        fns = list(doc.findall(nodes.footnote))
        by_name = {}
        for f in fns:
            if f["names"]:
                by_name[f["names"][0]] = f
        # every footnote starts with its label; labels pairwise distinct
        labels = []
        for f in fns:
            if not (len(f) and isinstance(f[0], nodes.label)):
                bad("label", "a footnote does not start with a label", kind="no-label")
            else:
                labels.append(f[0].astext())
        if len(set(labels)) != len(labels):
            bad("label", f"footnote labels not pairwise distinct: {labels}", kind="duplicate-label")
        # kept definitions and their text
        def body_text(f):
            # without the label and without reports attached inside the footnote
            return "\n\n".join(c.astext() for c in f.children if not isinstance(c, (nodes.label, nodes.system_message)))

        got_texts = Counter(body_text(f) for f in fns)
        exp_texts = Counter(f"D{i}{l}" for l, i in defs)
        if got_texts != exp_texts:
            bad("text-lost", f"footnote bodies {sorted(got_texts.elements())}, expected {sorted(exp_texts.elements())}")
        # numbering
        onum = {n: f[0].astext() for n, f in by_name.items() if len(f) and isinstance(f[0], nodes.label)}
        if set(onum) != set(num):
            bad("numbering", f"defined labels {sorted(onum)}, expected {sorted(num)}", kind="label-set")
        elif sort and onum != num:
            bad("numbering", f"numbers {onum}, expected {num} (numeric labels keep their number, others by first reference)", kind="by-reference")
        elif not sort:
            if any(onum[l] != l for l in num if l.isdigit()):
                bad("numbering", f"numeric labels changed: {onum}", kind="numeric")
        # references: per paragraph in order
        paras = {p.astext().split()[0]: p for p in doc.findall(lambda n: isinstance(n, (nodes.paragraph, nodes.title))) if p.astext().startswith("P")}
        backrefs = {l: [] for l in num}
        for i, s in enumerate(seq):
            if s[0] not in ("ref", "refd", "reft", "refa"):
                continue
            p = paras.get(f"P{i}")
            if p is None:
                bad("reference", f"paragraph P{i} lost", kind="paragraph-lost")
                continue
            kids = [c for c in p.children if not isinstance(c, nodes.Text) or c.astext().strip() not in ("", f"P{i}")]
            frefs = [c for c in p.findall(lambda n: isinstance(n, (nodes.footnote_reference, nodes.problematic)))]
            if len(frefs) != len(s[1]):
                bad("reference", f"P{i}: {len(frefs)} reference nodes for {len(s[1])} references", kind="count")
                continue
            for l, r in zip(s[1], frefs):
                if l not in num:
                    continue
                f = by_name.get(l)
                if f is None:
                    continue
                if not isinstance(r, nodes.footnote_reference):
                    bad("reference", f"reference [^{l}] to a defined footnote became {r.tagname}", kind="unresolved")
                    continue
                if r.get("refid") not in f["ids"]:
                    bad("reference", f"reference [^{l}] has refid {r.get('refid')!r}, definition ids {f['ids']}", kind="refid")
                if r.astext() != f[0].astext():
                    bad("reference", f"reference [^{l}] shows {r.astext()!r}, its definition is labelled {f[0].astext()!r}", kind="number")
                backrefs[l].extend(r["ids"])
        for l, f in by_name.items():
            if l in backrefs and list(f["backrefs"]) != backrefs[l]:
                bad("backrefs", f"footnote [{l}] backrefs {f['backrefs']}, ids of its references in source order {backrefs[l]}")
        # warnings
        odup = warn.count("Duplicate footnote definition")
        ounref = warn.count("is not referenced")
        if odup != dups:
            bad("warnings", f"{odup} duplicate-definition warnings for {dups} duplicate definitions", kind="duplicate")
        if ounref != unref:
            bad("warnings", f"{ounref} not-referenced warnings for {unref} unreferenced definitions", kind="unreferenced")
        tagged = warn.count("[ref.footnote]")
        if tagged != dups + unref:
            bad("warnings", f"{tagged} [ref.footnote] warnings, expected {dups + unref}", kind="tag-count")
        # structure
        ms = model_structure(seq, sort, trans, num, defs)
        os_ = structure(doc)
        fn_only = all(t[0] in ("fn", "tr") for t in os_) or not any(s[0] in ("ref", "refd", "refx", "reft", "refa") or s[2] in "ql" for s in seq)
        if sort and set(onum) == set(num):
            # labels of equal numeric value ('02' and an automatic '2') may come in either order
            def tie_norm(lst):
                k = len(lst)
                while k and lst[k - 1][0] == "fn":
                    k -= 1
                tail = lst[k:]
                if all(int(a[1]) <= int(b[1]) for a, b in zip(tail, tail[1:])):
                    tail = sorted(tail, key=lambda t: (int(t[1]), t[2]))
                return lst[:k] + tail

            ms, os_ = tie_norm(ms), tie_norm(os_)
            if fn_only:
                ms = [t for t in ms if t[0] != "tr"]
                os_ = [t for t in os_ if t[0] != "tr"]
            if onum == num and ms != os_:
                bad("collect", f"top-level structure {os_}, expected {ms}")
        elif not sort and set(onum) == set(num):
            strip = lambda lst: [(t[0], t[2]) if t[0] == "fn" else t for t in lst]  # noqa: E731
            if strip(ms) != strip(os_):
                bad("stay", f"with sorting disabled the top-level structure is {os_}, expected {ms}")
            if any(t[0] == "tr" for t in os_):
                bad("stay", "transition added although sorting is disabled")
        nt = bool(defs) and any(l in num for l, _ in refs)
        return Obs(digest=(tuple(sorted(onum.items())), odup, ounref, tuple(os_)), nontrivial=nt, violations=viol[:4],
                   canon=(tuple(sorted(num.items())), dups, unref, sort, trans, tuple(ms)))


class SphinxFootnoteSystem(System):
    """the same arrangements through the in-process Sphinx front end (settings supplied as front matter, one app per worker)"""

    name = "arrangements-sphinx"
    jobs = 8

    def __init__(self, tier):
        super().__init__(tier)
        self.n = 3 if tier == "quick" else 4
        self.symbols = list(range(13)) + [16]
        self.description = f"all sequences of <= {self.n} blocks over 14 footnote symbols x footnote_sort x footnote_transition through an in-process Sphinx application (read + post-transforms)"

    def prepare(self, ctx):
        self.root = ctx.scratch / "c11sx"
        self.root.mkdir(exist_ok=True)

    def worker_init(self, wid):
        from ..drivers import SphinxDriver

        self.drv = SphinxDriver(self.root / f"w{wid}")

    def bounds(self):
        return {"length": self.n, "symbols": len(self.symbols)}

    def rule(self):
        return "one case = (symbol sequence, sort, transition); non-trivial = at least one definition and one reference to a defined label"

    def cases(self):
        for n in range(1, self.n + 1):
            for idx in itertools.product(self.symbols, repeat=n):
                for sort in (True, False):
                    for trans in (True, False):
                        yield [list(idx), sort, trans]

    def run(self, case):
        idx, sort, trans = case
        if not hasattr(self, "drv"):
            self.worker_init(99)
        seq = [SYM[i] for i in idx]
        body = text_of(seq)
        text = f"---\nmyst:\n  footnote_sort: {'true' if sort else 'false'}\n  footnote_transition: {'true' if trans else 'false'}\n---\n" + body
        doc, warn = self.drv.read("t", text, resolve=True)
        # Sphinx: no title in these documents, so the footnotes sit directly under the document as in docutils
        w = warn.replace("WARNING: ", "")
        return evaluate(seq, sort, trans, text, doc, w, "sphinx")


def systems(tier):
    if tier == "quick":
        return [FootnoteSystem(tier, "arrangements", list(range(13)) + [16, 17, 19, 20], 3), FootnoteSystem(tier, "arrangements-wide", list(range(len(SYM))), 2), FootnoteSystem(tier, "arrangements-deep", SYM_SMALL, 4), SphinxFootnoteSystem(tier)]
    # thorough: the core alphabet one step deeper, the full alphabet one step deeper, the small alphabet to depth 5 and its first 10 symbols to depth 6
    return [FootnoteSystem(tier, "arrangements", list(range(13)) + [16, 17, 19, 20], 4), FootnoteSystem(tier, "arrangements-wide", list(range(len(SYM))), 3),
            FootnoteSystem(tier, "arrangements-deep", SYM_SMALL, 5), FootnoteSystem(tier, "arrangements-deepest", SYM_SMALL[:10], 6), SphinxFootnoteSystem(tier)]
