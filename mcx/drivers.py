"""Shared drivers: docutils front end, in-process Sphinx front end (DESIGN.md §2)."""

from __future__ import annotations

import io
import os
import re
from pathlib import Path

from docutils import nodes
from docutils.core import publish_doctree, publish_string
from docutils.frontend import OptionParser
from docutils.utils import new_document

from myst_parser.parsers.docutils_ import Parser

BASE_SETTINGS = {
    "halt_level": 5,  # a SEVERE system message is a report, not an abort (DESIGN.md §5)
    "report_level": 2,
    "traceback": True,
    "doctitle_xform": False,
    "sectsubtitle_xform": False,
    "file_insertion_enabled": True,
    "raw_enabled": True,
    "embed_stylesheet": False,
    "output_encoding": "unicode",
    "_disable_config": True,
}


def docutils_doctree(text: str, settings: dict | None = None, source_path: str = "/src/index.md"):
    """Full pipeline (parse + transforms). Returns (document, warning stream text)."""
    stream = io.StringIO()
    over = dict(BASE_SETTINGS)
    over["warning_stream"] = stream
    if settings:
        over.update(settings)
    doc = publish_doctree(
        source=text,
        source_path=source_path,
        parser=Parser(),
        settings_overrides=over,
    )
    return doc, stream.getvalue()


_SETTINGS_CACHE: dict = {}


def docutils_parse_only(text: str, settings: dict | None = None, source_path: str = "/src/index.md"):
    """Parser.parse only (no transforms). Returns (document, warning stream text)."""
    stream = io.StringIO()
    over = dict(BASE_SETTINGS)
    if settings:
        over.update(settings)
    over["warning_stream"] = stream
    parser = Parser()
    base = OptionParser(components=(Parser,), defaults={"_disable_config": True}).get_default_values()
    for k, v in over.items():
        setattr(base, k, v)
    doc = new_document(source_path, base)
    parser.parse(text, doc)
    return doc, stream.getvalue()


def docutils_html(text: str, settings: dict | None = None, source_path: str = "/src/index.md"):
    stream = io.StringIO()
    over = dict(BASE_SETTINGS)
    over["warning_stream"] = stream
    if settings:
        over.update(settings)
    out = publish_string(
        source=text,
        source_path=source_path,
        parser=Parser(),
        writer_name="html5",
        settings_overrides=over,
    )
    return out, stream.getvalue()


WARN_RE = re.compile(r"^(?P<src>.*?):(?:(?P<line>\d+):)? \((?P<level>[A-Z]+)/(?P<n>\d)\) (?P<msg>.*)$")


def parse_warnings(stream_text: str):
    """docutils stream -> list of dicts(src, line, level, msg, tag)"""
    out = []
    for ln in stream_text.splitlines():
        m = WARN_RE.match(ln)
        if not m:
            if out:
                out[-1]["msg"] += "\n" + ln
            continue
        d = m.groupdict()
        d["line"] = int(d["line"]) if d["line"] else None
        tag = re.search(r"\[([a-z_]+\.[a-z_]+)\]\s*$", d["msg"])
        d["tag"] = tag.group(1) if tag else None
        out.append(d)
    return out


def mask_pformat(doc: nodes.Node) -> str:
    return doc.pformat()
