"""Shared drivers: docutils front end, in-process Sphinx front end (DESIGN.md §2)."""

from __future__ import annotations

import io
import os
import re
from pathlib import Path

from docutils import nodes
from docutils.core import publish_doctree, publish_string
from docutils.frontend import OptionParser
from docutils.utils import new_document

from myst_parser.parsers.docutils_ import Parser

BASE_SETTINGS = {
    "halt_level": 5,  # a SEVERE system message is a report, not an abort (DESIGN.md §5)
    "report_level": 2,
    "traceback": True,
    "doctitle_xform": False,
    "sectsubtitle_xform": False,
    "file_insertion_enabled": True,
    "raw_enabled": True,
    "embed_stylesheet": False,
    "output_encoding": "unicode",
    "_disable_config": True,
}


def docutils_doctree(text: str, settings: dict | None = None, source_path: str = "/src/index.md"):
    """Full pipeline (parse + transforms). Returns (document, warning stream text)."""
    stream = io.StringIO()
    over = dict(BASE_SETTINGS)
    over["warning_stream"] = stream
    if settings:
        over.update(settings)
    doc = publish_doctree(
        source=text,
        source_path=source_path,
        parser=Parser(),
        settings_overrides=over,
    )
    return doc, stream.getvalue()


_SETTINGS_CACHE: dict = {}


def docutils_parse_only(text: str, settings: dict | None = None, source_path: str = "/src/index.md"):
    """Parser.parse only (no transforms). Returns (document, warning stream text)."""
    stream = io.StringIO()
    over = dict(BASE_SETTINGS)
    if settings:
        over.update(settings)
    over["warning_stream"] = stream
    parser = Parser()
    base = OptionParser(components=(Parser,), defaults={"_disable_config": True}).get_default_values()
    for k, v in over.items():
        setattr(base, k, v)
    doc = new_document(source_path, base)
    parser.parse(text, doc)
    return doc, stream.getvalue()


def docutils_html(text: str, settings: dict | None = None, source_path: str = "/src/index.md"):
    stream = io.StringIO()
    over = dict(BASE_SETTINGS)
    over["warning_stream"] = stream
    if settings:
        over.update(settings)
    out = publish_string(
        source=text,
        source_path=source_path,
        parser=Parser(),
        writer_name="html5",
        settings_overrides=over,
    )
    return out, stream.getvalue()


WARN_RE = re.compile(r"^(?P<src>.*?):(?:(?P<line>\d+):)? \((?P<level>[A-Z]+)/(?P<n>\d)\) (?P<msg>.*)$")


def parse_warnings(stream_text: str):
    """docutils stream -> list of dicts(src, line, level, msg, tag)"""
    out = []
    for ln in stream_text.splitlines():
        m = WARN_RE.match(ln)
        if not m:
            if out:
                out[-1]["msg"] += "\n" + ln
            continue
        d = m.groupdict()
        d["line"] = int(d["line"]) if d["line"] else None
        tag = re.search(r"\[([a-z_]+\.[a-z_]+)\]\s*$", d["msg"])
        d["tag"] = tag.group(1) if tag else None
        out.append(d)
    return out


def mask_pformat(doc: nodes.Node) -> str:
    return doc.pformat()


# ------------------------------------------------------------------------------------------------
# In-process Sphinx front end
ANSI_RE = re.compile(r"\x1b\[[0-9;]*m")


class SphinxDriver:
    """One in-process Sphinx application over a scratch source directory.

    ``read(docname, text)`` writes the file, re-reads it through the real reader/parser and returns
    (doctree after post-transforms, warning text of that step).
    """

    def __init__(self, root: Path, conf: str = "", files: dict | None = None, buildername: str = "html",
                 confoverrides: dict | None = None, build: bool = True):
        from sphinx.testing.util import SphinxTestApp

        self.root = Path(root)
        self.src = self.root / "src"
        self.src.mkdir(parents=True, exist_ok=True)
        (self.src / "conf.py").write_text("extensions=['myst_parser']\n" + conf)
        if not (self.src / "index.md").exists():
            (self.src / "index.md").write_text("# Index\n")
        for rel, content in (files or {}).items():
            p = self.src / rel
            p.parent.mkdir(parents=True, exist_ok=True)
            if isinstance(content, bytes):
                p.write_bytes(content)
            else:
                p.write_text(content)
        self.app = SphinxTestApp(srcdir=self.src, buildername=buildername, confoverrides=confoverrides or {})
        if build:
            self.app.build()
        self.clear_warnings()

    def clear_warnings(self):
        self.app._warning.truncate(0)
        self.app._warning.seek(0)
        self.app.statuscode = 0

    def warnings(self) -> str:
        return ANSI_RE.sub("", self.app._warning.getvalue())

    def write(self, docname: str, text: str):
        p = self.src / (docname + ".md")
        p.parent.mkdir(parents=True, exist_ok=True)
        p.write_text(text)

    def read(self, docname: str, text: str | None = None, resolve: bool = True):
        app = self.app
        if text is not None:
            self.write(docname, text)
        if docname not in app.env.project.docnames:
            app.env.project.discover()
        self.clear_warnings()
        app.env.temp_data.clear()
        app.env.ref_context.clear()
        app.env.clear_doc(docname)
        app.env.found_docs.add(docname)
        app.env.all_docs.pop(docname, None)
        app.builder.read_doc(docname, _cache=False)
        getattr(app.env, "_pickled_doctree_cache", {}).pop(docname, None)
        getattr(app.env, "_write_doc_doctree_cache", {}).pop(docname, None)
        doc = app.env.get_doctree(docname)
        if resolve:
            app.env.apply_post_transforms(doc, docname)
        return doc, self.warnings()

    def resolve(self, docname: str):
        self.clear_warnings()
        getattr(self.app.env, "_write_doc_doctree_cache", {}).pop(docname, None)
        doc = self.app.env.get_and_resolve_doctree(docname, self.app.builder)
        return doc, self.warnings()

    def close(self):
        try:
            self.app.cleanup()
        except Exception:
            pass


SPHINX_WARN_RE = re.compile(r"^(?P<src>.*?):(?:(?P<line>\d+):)? (?P<level>WARNING|ERROR|CRITICAL|SEVERE): (?P<msg>.*)$")


def parse_sphinx_warnings(text: str):
    out = []
    for ln in ANSI_RE.sub("", text).splitlines():
        m = SPHINX_WARN_RE.match(ln)
        if not m:
            if out and ln.strip():
                out[-1]["msg"] += "\n" + ln
            continue
        d = m.groupdict()
        d["line"] = int(d["line"]) if d["line"] else None
        tag = re.search(r"\[([a-z_]+\.[a-z_]+)\]\s*$", d["msg"])
        d["tag"] = tag.group(1) if tag else None
        out.append(d)
    return out
