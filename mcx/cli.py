"""./check entry point: run the systems of one property, match known findings, write evidence."""

from __future__ import annotations

import argparse
import hashlib
import importlib
import json
import os
import shutil
import subprocess
import sys
import tempfile
import time
from dataclasses import dataclass
from pathlib import Path

VERIF = Path(__file__).resolve().parent.parent
REPO = Path(os.environ.get("MCX_REPO") or "/repo")
SCHEMA = Path("/root/.vp/EVIDENCE.schema.json")


@dataclass
class Ctx:
    tier: str
    seed: int
    jobs: int
    scratch: Path
    prop: str


def tree_id() -> str:
    try:
        head = subprocess.run(
            ["git", "-C", str(REPO), "rev-parse", "HEAD"],
            capture_output=True,
            text=True,
            timeout=30,
        ).stdout.strip()
        diff = subprocess.run(
            ["git", "-C", str(REPO), "diff", "HEAD"],
            capture_output=True,
            timeout=30,
        ).stdout
        return head[:12] + "+" + hashlib.sha1(diff).hexdigest()[:10]
    except Exception as exc:  # pragma: no cover
        return f"unknown({exc})"


def assert_repo_import():
    import myst_parser

    p = Path(myst_parser.__file__).resolve()
    if REPO not in p.parents:
        print(f"HARNESS-ERROR: myst_parser imported from {p}, not from {REPO}")
        sys.exit(2)


def load_known(prop: str) -> list[dict]:
    f = VERIF / "known_findings.json"
    if not f.exists():
        return []
    return [
        e
        for e in json.loads(f.read_text())
        if e.get("property") == prop and e.get("kind") == "known"
    ]


def match_known(sig: dict, known: list[dict]):
    for e in known:
        ks = e["signature"]
        if all(sig.get(k) == v for k, v in ks.items()):
            return e
    return None


def jsonable(x):
    try:
        json.dumps(x)
        return x
    except TypeError:
        if isinstance(x, dict):
            return {str(k): jsonable(v) for k, v in x.items()}
        if isinstance(x, (list, tuple, set, frozenset)):
            return [jsonable(v) for v in x]
        if isinstance(x, bytes):
            return {"bytes-latin1": x.decode("latin1")}
        return repr(x)


def selfcheck() -> int:
    assert_repo_import()
    import docutils
    import markdown_it
    import sphinx
    import yaml

    print(
        "selfcheck: python",
        sys.version.split()[0],
        "docutils",
        docutils.__version__,
        "sphinx",
        sphinx.__version__,
        "markdown-it",
        markdown_it.__version__,
        "pyyaml",
        yaml.__version__,
    )
    man = json.loads((VERIF / "MANIFEST.json").read_text())
    for chk in man["checks"]:
        mod = importlib.import_module("mcx.props." + chk["property_id"].lower())
        assert mod.PROPERTY_ID == chk["property_id"]
    (VERIF / "evidence").mkdir(exist_ok=True)
    print(f"selfcheck: {len(man['checks'])} property modules import")
    return 0


def validate_evidence(path: Path) -> str | None:
    """Validate with the tooling interpreter (jsonschema is not in /venv). None = ok."""
    vt = shutil.which("python3-vt")
    if not vt or not SCHEMA.exists():
        return None
    code = (
        "import json,sys,jsonschema;"
        "jsonschema.validate(json.load(open(sys.argv[1])),json.load(open(sys.argv[2])))"
    )
    env = {k: v for k, v in os.environ.items() if not k.startswith("PYTHON")}
    r = subprocess.run(
        [vt, "-c", code, str(path), str(SCHEMA)], capture_output=True, text=True, env=env
    )
    if r.returncode != 0:
        return r.stderr[-1500:]
    return None


def main(argv=None) -> int:
    ap = argparse.ArgumentParser(prog="check")
    ap.add_argument("prop", nargs="?")
    ap.add_argument("--tier", default=os.environ.get("VERIF_TIER") or "quick")
    ap.add_argument("--replay")
    ap.add_argument("--jobs", type=int, default=int(os.environ.get("VERIF_JOBS") or 0))
    ap.add_argument("--systems", default="")
    ap.add_argument("--selfcheck", action="store_true")
    ap.add_argument("--no-evidence", action="store_true")
    args = ap.parse_args(argv)
    if args.selfcheck:
        return selfcheck()
    if not args.prop:
        ap.error("property id required")
    if args.tier not in ("quick", "thorough"):
        args.tier = "quick"
    prop = args.prop.upper()
    assert_repo_import()
    try:
        seed = int(os.environ.get("VERIF_SEED") or 0)
    except ValueError:
        seed = 0
    jobs = args.jobs or min(16, os.cpu_count() or 4)
    scratch = Path(tempfile.mkdtemp(prefix=f"mcx-{prop}-"))
    ctx = Ctx(tier=args.tier, seed=seed, jobs=jobs, scratch=scratch, prop=prop)
    try:
        mod = importlib.import_module("mcx.props." + prop.lower())
        if args.replay:
            return replay(mod, ctx, Path(args.replay))
        return run_check(mod, ctx, args)
    finally:
        shutil.rmtree(scratch, ignore_errors=True)


def replay(mod, ctx: Ctx, path: Path) -> int:
    from .engine import _execute, _execute_forked, _on_alarm
    import signal

    art = json.loads(path.read_text())
    ctx.tier = art.get("tier", ctx.tier)
    systems = [s for s in mod.systems(ctx.tier) if s.name == art["system"]]
    if not systems:
        print(f"HARNESS-ERROR: no system {art['system']!r} in {mod.PROPERTY_ID}")
        return 2
    system = systems[0]
    system.prepare(ctx)
    signal.signal(signal.SIGALRM, _on_alarm)
    case = art["case"]
    if hasattr(system, "decode_case"):
        case = system.decode_case(case)
    obs, dt = (_execute_forked if system.fork_per_case else _execute)(system, case)
    print(f"replay {mod.PROPERTY_ID}/{system.name} case={json.dumps(jsonable(case))[:400]}")
    if not obs.violations:
        print("replay: oracle holds")
        return 0
    for v in obs.violations:
        print(f"replay: {v['clause']}: {v['message']}")
        for k, val in v["detail"].items():
            print(f"    {k}: {str(val)[:1500]}")
    print(f"VIOLATION property={mod.PROPERTY_ID} replay={path}")
    return 1


def run_check(mod, ctx: Ctx, args) -> int:
    from .engine import run_system

    t0 = time.time()
    prop = mod.PROPERTY_ID
    known = load_known(prop)
    systems = mod.systems(ctx.tier)
    if args.systems:
        want = set(args.systems.split(","))
        systems = [s for s in systems if s.name in want]
    results = []
    for system in systems:
        r = run_system(system, ctx)
        results.append(r)
        print(
            f"[{prop}/{r.name}] evaluations={r.evaluations} states={r.states} "
            f"transitions={r.transitions} nontrivial={r.distinct_nontrivial} "
            f"outcomes={r.distinct_outcomes} violations={sum(s['count'] for s in r.violations.values())} "
            f"exhaustive={r.exhaustive} max_exec={r.max_exec_s:.3f}s wall={r.wall_s:.1f}s"
            + (f" stats={dict(r.stats)}" if r.stats else ""),
            flush=True,
        )
    # ---- classify violations -----------------------------------------------------------------
    tid = tree_id()
    errors = [e for r in results for e in r.errors]
    new_lines = []
    known_hits: dict[str, int] = {}
    n_viol = 0
    rdir = VERIF / "replays" / prop
    for r in results:
        for key, slot in sorted(r.violations.items(), key=lambda kv: kv[1]["examples"][0]["idx"]):
            ex = slot["examples"][0]
            hit = match_known(ex["signature"], known)
            if hit is not None:
                known_hits[hit["what"]] = known_hits.get(hit["what"], 0) + slot["count"]
                continue
            n_viol += slot["count"]
            art = {
                "property": prop,
                "system": r.name,
                "tier": ctx.tier,
                "case": jsonable(ex["case"]),
                "clause": ex["clause"],
                "signature": ex["signature"],
                "message": ex["message"],
                "detail": jsonable(ex["detail"]),
                "count_in_run": slot["count"],
                "tree_id": tid,
            }
            blob = json.dumps(art, indent=1, ensure_ascii=False, sort_keys=True)
            sha = hashlib.sha1(
                json.dumps([r.name, art["case"], ex["clause"], ex["signature"]], sort_keys=True, default=str).encode()
            ).hexdigest()[:16]
            rdir.mkdir(parents=True, exist_ok=True)
            path = rdir / f"{sha}.json"
            path.write_text(blob)
            new_lines.append((path, ex, slot["count"]))
    for what, cnt in known_hits.items():
        print(f"KNOWN-FINDING: property={prop} {what} [{cnt} cases in this run]")
    for path, ex, cnt in new_lines[:25]:
        print(f"  {ex['clause']}: {ex['message'][:300]} [{cnt} cases] signature={json.dumps(ex['signature'], ensure_ascii=False)}")
        print(f"VIOLATION property={prop} replay={path}")
    if len(new_lines) > 25:
        print(f"  ... {len(new_lines) - 25} further distinct signatures (replays written)")
    # ---- vacuity -------------------------------------------------------------------------------
    for r in results:
        if r.evaluations == 0:
            errors.append(f"system {r.name} executed nothing")
        elif r.distinct_outcomes < 2 and r.name not in getattr(mod, "ALLOW_SINGLE_OUTCOME", ()):
            errors.append(f"system {r.name}: one outcome from {r.evaluations} executions (vacuous)")
    if hasattr(mod, "vacuity"):
        errors.extend(mod.vacuity(results))
    # ---- evidence ------------------------------------------------------------------------------
    wall = time.time() - t0
    if not args.no_evidence and not args.systems:
        ev = build_evidence(mod, ctx, results, n_viol, known_hits, wall, tid)
        edir = VERIF / "evidence"
        edir.mkdir(exist_ok=True)
        epath = edir / f"{prop}.json"
        epath.write_text(json.dumps(ev, indent=1, ensure_ascii=False) + "\n")
        bad = validate_evidence(epath)
        if bad:
            errors.append("evidence does not validate: " + bad)
    for e in errors:
        print("HARNESS-ERROR:", e)
    total_eval = sum(r.evaluations for r in results)
    print(
        f"[{prop}] tier={ctx.tier} systems={len(results)} evaluations={total_eval} "
        f"violations={n_viol} known={sum(known_hits.values())} wall={wall:.1f}s"
    )
    if n_viol:
        return 1
    if errors:
        return 2
    return 0


def build_evidence(mod, ctx, results, n_viol, known_hits, wall, tid) -> dict:
    samples = []
    for r in results:
        for s in r.samples[:2]:
            samples.append({"system": r.name, "case": jsonable(s)})
    if not samples:
        samples = [{"note": "no non-trivial case"}]
    cov = {
        "evaluations": sum(r.evaluations for r in results),
        "distinct_nontrivial": sum(r.distinct_nontrivial for r in results),
        "distinct_outcomes": sum(r.distinct_outcomes for r in results),
        "states": sum(r.states for r in results),
        "transitions": sum(r.transitions for r in results),
        "traces_validated_against_impl": sum(r.validated for r in results),
        "rule": " || ".join(f"{r.name}: {r.rule}" for r in results),
        "samples": samples,
        "exhaustive": all(r.exhaustive for r in results),
        "caps_hit": [c for r in results for c in r.caps_hit],
        "known_findings_matched": known_hits,
        "tree_id": tid,
        "per_system": [
            {
                "name": r.name,
                "description": r.description,
                "bounds": jsonable(r.bounds),
                "alphabet": jsonable(r.alphabet),
                "evaluations": r.evaluations,
                "distinct_nontrivial": r.distinct_nontrivial,
                "distinct_outcomes": r.distinct_outcomes,
                "states": r.states,
                "transitions": r.transitions,
                "validated": r.validated,
                "fixpoint": r.fixpoint,
                "max_depth": r.max_depth,
                "violating_cases": sum(s["count"] for s in r.violations.values()),
                "stats": dict(r.stats),
                "exhaustive": r.exhaustive,
                "max_exec_s": round(r.max_exec_s, 4),
                "wall_s": round(r.wall_s, 2),
            }
            for r in results
        ],
    }
    if mod.LEVEL == "other":
        cov["explanation"] = getattr(mod, "EXPLANATION", "")
    return {
        "property_id": mod.PROPERTY_ID,
        "tier": ctx.tier,
        "seed": ctx.seed,
        "level": mod.LEVEL,
        "coverage": cov,
        "assumptions": list(getattr(mod, "ASSUMPTIONS", [])),
        "wall_s": round(wall, 2),
        "violations": n_viol,
    }


if __name__ == "__main__":
    sys.exit(main())
