"""Reference model of the documented wildcard semantics (C19): '*' any run of characters,
'\\*' a literal star, every other character (incl. a lone or trailing backslash) only itself."""
from functools import lru_cache


@lru_cache(maxsize=None)
def tokenise(pat: str):
    out = []
    i = 0
    while i < len(pat):
        if pat[i] == "\\" and i + 1 < len(pat) and pat[i + 1] == "*":
            out.append("L*")
            i += 2
        elif pat[i] == "*":
            out.append("ANY")
            i += 1
        else:
            out.append("L" + pat[i])
            i += 1
    return tuple(out)


def match(name: str, pat) -> bool:
    if pat is None:
        return True
    toks = tokenise(pat)
    # set of reachable positions in name
    pos = {0}
    n = len(name)
    for t in toks:
        if t == "ANY":
            lo = min(pos) if pos else None
            pos = set(range(lo, n + 1)) if lo is not None else set()
        else:
            ch = t[1:]
            pos = {p + 1 for p in pos if p < n and name[p] == ch}
        if not pos:
            return False
    return n in pos
