"""Writers for Sphinx inventory files (harness side; no code shared with myst_parser.inventory)."""
import zlib


def make_v2(project: str, version: str, lines: list, final_newline: bool = True, level: int = 9) -> bytes:
    body = "\n".join(lines) + ("\n" if final_newline and lines else "")
    head = (
        "# Sphinx inventory version 2\n"
        f"# Project: {project}\n"
        f"# Version: {version}\n"
        "# The remainder of this file is compressed using zlib.\n"
    )
    return head.encode() + zlib.compress(body.encode(), level)


def make_v1(project: str, version: str, lines: list, final_newline: bool = True) -> bytes:
    head = f"# Sphinx inventory version 1\n# Project: {project}\n# Version: {version}\n"
    body = "\n".join(lines) + ("\n" if final_newline and lines else "")
    return (head + body).encode()
