"""slug function for C10 (same function name as pkg_a.slugify)"""


def slugify(title):
    return "B-" + title.replace(" ", "_")
