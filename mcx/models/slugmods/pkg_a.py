"""slug function for C10 (same function name as pkg_b.slugify)"""


def slugify(title):
    return "A-" + title.replace(" ", "_")
